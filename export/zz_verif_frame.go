//go:build verif

package frame

import "encoding/binary"

// Function-level access to the length-field packing for the verification harness
// (4- and 8-byte capacities cannot be reached with materialised bodies).
func VerifPackFieldLength(order binary.ByteOrder, fieldLen int, v int64) []byte {
	return packFieldLength(order, fieldLen, v)
}

func VerifUnpackFieldLength(order binary.ByteOrder, fieldLen int, b []byte) int64 {
	return unpackFieldLength(order, fieldLen, b)
}
