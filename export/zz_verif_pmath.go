//go:build verif

package pool

import "github.com/go-netty/go-netty/utils/pool/internal/pmath"

// Read-only access to the internal size-class arithmetic for the verification
// harness (this file exists only in the build overlay).

func VerifCeil(n int) int    { return pmath.CeilToPowerOfTwo(n) }
func VerifFloor(n int) int   { return pmath.FloorToPowerOfTwo(n) }
func VerifIsPow2(n int) bool { return pmath.IsPowerOfTwo(n) }

// VerifGeometry exposes (number of shards, step size) and the class size of n.
func (p *Pool[T]) VerifGeometry() (shards, step int) { return len(p.pool), p.stepSize }
func (p *Pool[T]) VerifClass(n int) int              { return p.size(n) }
