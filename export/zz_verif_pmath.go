//go:build verif

package pool

import "github.com/go-netty/go-netty/utils/pool/internal/pmath"

// Read-only access to the internal size-class arithmetic for the verification
// harness (this file exists only in the build overlay).

func VerifCeil(n int) int    { return pmath.CeilToPowerOfTwo(n) }
func VerifFloor(n int) int   { return pmath.FloorToPowerOfTwo(n) }
func VerifIsPow2(n int) bool { return pmath.IsPowerOfTwo(n) }
