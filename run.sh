#!/bin/bash
# usage: run.sh <PROPERTY> quick|thorough [extra args]      run the check of one property
#        run.sh <PROPERTY> replay <file>                   re-execute a recorded violation
#        run.sh setup                                      build tools and warm the build cache
# Instruments ${VERIF_REPO:-/repo}'s *current working tree* (vinstr + go build -overlay;
# nothing is written to the repository), builds the harness of the property and runs it.
# exit 0: property held on everything explored; 1: VIOLATION; 2: engine error.
set -u
V=$(cd "$(dirname "$0")" && pwd)
REPO=${VERIF_REPO:-/repo}
export GOFLAGS=-mod=mod GOPROXY=off GOSUMDB=off GOTOOLCHAIN=local
export VERIF_DIR=$V

build_vinstr() {
  if [ ! -x "$V/.bin/vinstr" ] || [ "$V/tools/vinstr/main.go" -nt "$V/.bin/vinstr" ]; then
    mkdir -p "$V/.bin"
    (cd "$V/tools/vinstr" && go build -o "$V/.bin/vinstr" .) || { echo "ENGINE ERROR: cannot build vinstr" >&2; exit 2; }
  fi
}

# build_check <harness-name> <outdir> [race]
build_check() {
  local h=$1 B=$2 race=${3:-}
  local adds=()
  for e in vsched vsync vatomic vtime vcontext explore; do adds+=(-add "$e=$V/engine/$e"); done
  for d in "$V"/harness/lib/*/; do [ -d "$d" ] && adds+=(-add "$(basename "$d")=${d%/}"); done
  adds+=(-add "mock=$V/harness/mock" -add "$h=$V/harness/$h")
  "$V/.bin/vinstr" $race -repo "$REPO" -out "$B/gen" -overlay "$B/ov.json" "${adds[@]}" \
     -addfile "utils/pool/zz_verif_pmath.go=$V/export/zz_verif_pmath.go" -addfile "codec/frame/zz_verif_frame.go=$V/export/zz_verif_frame.go" \
     . utils/pool utils/pool/pbytes utils/pool/pbuffer codec/xhttp codec/frame codec/format utils transport transport/tcp >"$B/vinstr.log" 2>&1 || { cat "$B/vinstr.log" >&2; echo "ENGINE ERROR: instrumentation failed" >&2; return 2; }
  (cd "$REPO" && go build -tags verif -overlay "$B/ov.json" -o "$B/check" "./zz_verif/$h") >"$B/build.log" 2>&1 || { cat "$B/build.log" >&2; echo "ENGINE ERROR: build failed" >&2; return 2; }
}

if [ "${1:-}" = setup ]; then
  build_vinstr
  rc=0
  for d in "$V"/harness/c*/; do
    h=$(basename "$d")
    B="$V/.build/setup.$h.$$"; mkdir -p "$B"
    race=""; [ "$h" = c12 ] && race="-race"
    build_check "$h" "$B" $race || rc=2
    rm -rf "$B"
  done
  rmdir "$V/.build" 2>/dev/null
  exit $rc
fi

if [ "${1:-}" = selfcheck ]; then
  # differential validation of the happens-before state cache: the same scenarios explored with
  # and without the cache must produce the same set of terminal observations
  rc=0
  while read -r id only bound; do
    a=$(VERIF_BUDGET_S=1200 "$0" "$id" quick -only "$only" -bound "$bound" 2>&1 | grep "outcome-set digest")
    b=$(VERIF_BUDGET_S=1200 VERIF_NOCACHE=1 VERIF_OUT="$V/.build/selfcheck.$$" "$0" "$id" quick -only "$only" -bound "$bound" 2>&1 | grep "outcome-set digest")
    if [ -n "$a" ] && [ "$a" = "$b" ]; then echo "selfcheck $id [$only] bound $bound: cached == uncached ($a)"; else echo "selfcheck $id [$only] bound $bound: MISMATCH cached='$a' uncached='$b'"; rc=2; fi
  done <<'EOT'
C06 aq(2,B)/2w 3
C01 aq(1,B)/Write1,Writev|CtxWrite1,CtxWritev 2
C02 aq(2,N)/Write1,Writev|CtxWrite1,CtxWritev 2
C05 aq(2,B)/user1+user2 2
C11 overlap/aq(2,B)/close(nil) 2
C18 aq(1,B)/cancelled 2
C10 aq(1,B)/Write1(8) 2
C09 aq(2,B)/none/[]byte 2
EOT
  rm -rf "$V/.build/selfcheck.$$"; rmdir "$V/.build" 2>/dev/null
  exit $rc
fi

id=${1:?property id}; mode=${2:?quick|thorough|replay}; shift 2
h=$(echo "$id" | tr 'A-Z' 'a-z')
[ -d "$V/harness/$h" ] || { echo "ENGINE ERROR: no harness for $id" >&2; exit 2; }
build_vinstr
B="$V/.build/$h.$$"
mkdir -p "$B"
trap 'rm -rf "$B"; rmdir "$V/.build" 2>/dev/null' EXIT
race=""; [ "$h" = c12 ] && race="-race"
build_check "$h" "$B" $race || exit 2
case "$mode" in
  quick|thorough) "$B/check" -tier "$mode" "$@"; exit $? ;;
  replay) "$B/check" -replay "$1"; exit $? ;;
  *) echo "usage: run.sh <ID> quick|thorough|replay" >&2; exit 2 ;;
esac
