#!/usr/bin/env python3
"""Rebuilds the detection table at the end of DESIGN.md from seeded/*/meta.json, mutants/*.diff and mutants/selftest_results.json."""
import json, os, glob, re
V = os.path.dirname(os.path.dirname(os.path.abspath(__file__)))
res = json.load(open(V + '/mutants/selftest_results.json'))
summ = json.load(open(V + '/tools/seed_summaries.json'))
hand = {
 "c02_no_recheck.diff": "sender's re-check after releasing the role deleted (the lost wake-up the property text names)",
 "c04_prefix_defect.diff": "reverse of fix 11677d9 (length header silently truncated)",
 "c07_no_recover_trigger.diff": "recover removed from handlerContext.Trigger",
 "c07_wrap_errors.diff": "AsException wraps errors (identity lost)",
 "c08_prefix_defect.diff": "reverse of fix 6529eea (lazy LimitReader delivers truncated frames)",
 "c09_prefix_delimiter.diff": "reverse of fix ad4dd01 (delimiter codec MultiReader for in-memory messages)",
 "c12_holder_del_nolock.diff": "mutex dropped in holder.delChannel",
 "c12_isactive_plain_read.diff": "IsActive reads the closed flag without atomic",
 "c13_prefix_defect.diff": "reverse of fix cbbf80a (late-started listener keeps accepting; acceptor race)",
 "c14_prefix_readbyte.diff": "reverse of fix 08a134b (ReadByte returns byte+error)",
 "c14_prefix_stealbytes.diff": "reverse of fix 1ea4837 (StealBytes aliasing)",
 "c19_prefix_defect.diff": "reverse of fix aee4a13 (Put of a non-class capacity)",
 "c20_timer_not_stopped.diff": "write-idle timer not stopped on inactive",
}
rows = []
for d in sorted(glob.glob(V + '/seeded/*/meta.json')):
    m = json.load(open(d)); sid = m['id']
    det = res.get(sid, {}).get('detected_by', m.get('detected_by', []))
    rows.append((sid, m['property'], 'sub-agent', summ.get(sid, ''), ', '.join(det) if det else ('n/a (no longer applies)' if sid == 'c19-m1' else 'MISSED')))
for f in sorted(glob.glob(V + '/mutants/*.diff')):
    b = os.path.basename(f)
    det = res.get(b, {}).get('detected_by', [])
    rows.append((b, b[:3].upper(), 'hand-made', hand.get(b, ''), ', '.join(det) if det else 'not run'))
t = ["| change | property | origin | what it does | caught by |", "|---|---|---|---|---|"]
for r in rows:
    t.append("| %s | %s | %s | %s | %s |" % r)
p = V + '/DESIGN.md'
s = open(p).read()
marker = '<!-- SELFTEST_TABLE_BEGIN -->'
end = '<!-- SELFTEST_TABLE_END -->'
block = marker + '\n' + '\n'.join(t) + '\n' + end
if marker in s:
    s = re.sub(re.escape(marker) + '.*?' + re.escape(end), lambda m: block, s, flags=re.S)
else:
    s = s.replace('SELFTEST_TABLE', block)
open(p, 'w').write(s)
print(len(rows), 'rows')
