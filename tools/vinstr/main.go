// vinstr: rewrite a Go package so that every synchronisation operation goes through vsched.
package main

import (
	"bytes"
	"encoding/json"
	"flag"
	"fmt"
	"go/ast"
	"go/format"
	"go/importer"
	"go/parser"
	"go/token"
	"go/types"
	"os"
	"path/filepath"
	"strconv"
	"strings"

	"golang.org/x/tools/go/ast/astutil"
)

const shimRoot = "github.com/go-netty/go-netty/zz_verif/"

var importMap = map[string]string{
	"sync":        shimRoot + "vsync",
	"sync/atomic": shimRoot + "vatomic",
	"time":        shimRoot + "vtime",
	"context":     shimRoot + "vcontext",
}

func main() {
	repo := flag.String("repo", "/repo", "")
	out := flag.String("out", "", "output dir for rewritten files")
	ovl := flag.String("overlay", "", "overlay json to write/merge")
	flag.BoolVar(&raceMode, "race", false, "instrument field accesses")
	var adds, addFiles multi
	flag.Var(&adds, "add", "virtual=realdir: map every .go file of realdir to <repo>/zz_verif/<virtual>/ (repeatable)")
	flag.Var(&addFiles, "addfile", "relpath=realfile: add one file at <repo>/<relpath> (repeatable)")
	flag.Parse()
	overlay := map[string]string{}
	if err := os.Chdir(*repo); err != nil {
		fatal("chdir: %v", err)
	}
	for _, rel := range flag.Args() {
		dir := filepath.Join(*repo, rel)
		instrumentPkg(dir, filepath.Join(*out, rel), overlay)
	}
	for _, a := range adds {
		kv := strings.SplitN(a, "=", 2)
		ents, err := os.ReadDir(kv[1])
		if err != nil {
			fatal("add %s: %v", a, err)
		}
		for _, e := range ents {
			if strings.HasSuffix(e.Name(), ".go") && !strings.HasSuffix(e.Name(), "_test.go") {
				overlay[filepath.Join(*repo, "zz_verif", kv[0], e.Name())] = filepath.Join(kv[1], e.Name())
			}
		}
	}
	for _, a := range addFiles {
		kv := strings.SplitN(a, "=", 2)
		overlay[filepath.Join(*repo, kv[0])] = kv[1]
	}
	if *ovl != "" {
		b, _ := json.MarshalIndent(map[string]any{"Replace": overlay}, "", " ")
		os.WriteFile(*ovl, b, 0o644)
	}
}

var raceMode bool

type multi []string

func (m *multi) String() string     { return strings.Join(*m, ",") }
func (m *multi) Set(s string) error { *m = append(*m, s); return nil }

// fatal is the fail-loud exit: an engine error (2), never a silent partial rewrite.
func fatal(f string, a ...any) {
	fmt.Fprintf(os.Stderr, "vinstr: ENGINE ERROR: "+f+"\n", a...)
	os.Exit(2)
}

type rw struct {
	pkg   *types.Package
	fset  *token.FileSet
	info  *types.Info
	file  string
	used  bool
	funcs []fnRange
}

type fnRange struct {
	pos, end token.Pos
	name     string
}

// at is the source position of n; for calls the closing parenthesis (inner operands may already have
// been replaced by synthesised, position-less nodes).
func at(n ast.Node) token.Pos {
	if c, ok := n.(*ast.CallExpr); ok && c.Rparen.IsValid() {
		return c.Rparen
	}
	if ix, ok := n.(*ast.IndexExpr); ok && ix.Rbrack.IsValid() {
		return ix.Rbrack
	}
	return n.Pos()
}

func (r *rw) funcOf(n ast.Node) string {
	for _, f := range r.funcs {
		if at(n) >= f.pos && at(n) < f.end {
			return f.name
		}
	}
	return "init"
}

func (r *rw) collectFuncs(f *ast.File) {
	for _, d := range f.Decls {
		fd, ok := d.(*ast.FuncDecl)
		if !ok {
			continue
		}
		name := fd.Name.Name
		if fd.Recv != nil && len(fd.Recv.List) > 0 {
			t := fd.Recv.List[0].Type
			if s, ok := t.(*ast.StarExpr); ok {
				t = s.X
			}
			if ix, ok := t.(*ast.IndexExpr); ok {
				t = ix.X
			}
			if id, ok := t.(*ast.Ident); ok {
				name = id.Name + "." + name
			}
		}
		r.funcs = append(r.funcs, fnRange{fd.Pos(), fd.End(), name})
	}
}

func (r *rw) pos(n ast.Node) string {
	p := r.fset.Position(at(n))
	return fmt.Sprintf("%s:%d", filepath.Base(p.Filename), p.Line)
}

func (r *rw) isChan(e ast.Expr) bool {
	tv, ok := r.info.Types[e]
	if !ok || tv.Type == nil {
		return false
	}
	_, ok = tv.Type.Underlying().(*types.Chan)
	return ok
}
func (r *rw) isSlice(e ast.Expr) bool {
	tv, ok := r.info.Types[e]
	if !ok || tv.Type == nil {
		return false
	}
	_, ok = tv.Type.Underlying().(*types.Slice)
	return ok
}

func (r *rw) isMap(e ast.Expr) bool {
	tv, ok := r.info.Types[e]
	if !ok || tv.Type == nil {
		return false
	}
	_, ok = tv.Type.Underlying().(*types.Map)
	return ok
}

func sel(pkg, name string) ast.Expr {
	return &ast.SelectorExpr{X: ast.NewIdent(pkg), Sel: ast.NewIdent(name)}
}
func lit(s string) ast.Expr { return &ast.BasicLit{Kind: token.STRING, Value: strconv.Quote(s)} }
func call(pkg, name string, args ...ast.Expr) *ast.CallExpr {
	return &ast.CallExpr{Fun: sel(pkg, name), Args: args}
}

func (r *rw) rewriteSelect(s *ast.SelectStmt) ast.Stmt {
	r.used = true
	hasDefault := "false"
	args := []ast.Expr{lit(r.pos(s)), nil}
	var clauses []ast.Stmt
	idx := 0
	for _, c := range s.Body.List {
		cc := c.(*ast.CommClause)
		if cc.Comm == nil {
			hasDefault = "true"
			clauses = append(clauses, &ast.CaseClause{List: nil, Body: cc.Body})
			continue
		}
		var ch ast.Expr
		send := false
		switch st := cc.Comm.(type) {
		case *ast.SendStmt:
			ch, send = st.Chan, true
		case *ast.ExprStmt:
			ch = st.X.(*ast.UnaryExpr).X
		case *ast.AssignStmt:
			ch = st.Rhs[0].(*ast.UnaryExpr).X
		default:
			fatal("unsupported comm clause at %s", r.pos(cc))
		}
		fn := "R"
		if send {
			fn = "S"
		}
		args = append(args, call("vsched", fn, ch))
		body := append([]ast.Stmt{cc.Comm}, cc.Body...)
		clauses = append(clauses, &ast.CaseClause{List: []ast.Expr{&ast.BasicLit{Kind: token.INT, Value: strconv.Itoa(idx)}}, Body: body})
		idx++
	}
	args[1] = ast.NewIdent(hasDefault)
	if hasDefault == "false" {
		// a select without default is a terminating statement when all its clauses are;
		// keep that property for the switch (Select never returns -1 here)
		clauses = append(clauses, &ast.CaseClause{List: nil, Body: []ast.Stmt{&ast.ExprStmt{X: &ast.CallExpr{Fun: ast.NewIdent("panic"), Args: []ast.Expr{lit("vsched: unreachable select default")}}}}})
	}
	return &ast.SwitchStmt{Tag: call("vsched", "Select", args...), Body: &ast.BlockStmt{List: clauses}}
}

// fieldAccess reports whether e is x.f with f a field of a struct declared in this package and e addressable.
func (r *rw) fieldAccess(e ast.Expr) (string, bool) {
	se, ok := e.(*ast.SelectorExpr)
	if !ok {
		return "", false
	}
	sl, ok := r.info.Selections[se]
	if !ok || sl.Kind() != types.FieldVal {
		return "", false
	}
	v := sl.Obj().(*types.Var)
	if v.Pkg() != r.pkg {
		return "", false
	}
	if tv := r.info.Types[e]; !tv.Addressable() {
		return "", false
	}
	// skip sync-typed fields (accessed through their own methods)
	if n, ok := v.Type().(*types.Named); ok && n.Obj().Pkg() != nil {
		switch n.Obj().Pkg().Path() {
		case "sync", "sync/atomic":
			return "", false
		}
	}
	recv := sl.Recv()
	if p, ok := recv.(*types.Pointer); ok {
		recv = p.Elem()
	}
	name := v.Name()
	if n, ok := recv.(*types.Named); ok {
		name = n.Obj().Name() + "." + name
	}
	return name, true
}

func (r *rw) raceRewrite(f *ast.File) {
	writes := map[ast.Expr]bool{}
	skip := map[ast.Expr]bool{}
	mapIdx := map[*ast.IndexExpr]bool{}    // index expressions on maps (by original node)
	sliceIdx := map[*ast.IndexExpr]bool{}  // element accesses s[i] on slices: the backing array is one location
	mapCall := map[*ast.CallExpr]string{}  // delete(m,k) / len(m) on maps
	copyCall := map[*ast.CallExpr]bool{}   // copy(dst, src) on slices (value: src is a slice too)
	stdArg := map[*ast.CallExpr][]int{}    // arguments of type *bufio.Reader / *bufio.Writer
	stdCall := map[*ast.CallExpr]string{}  // method calls on *bytes.Buffer / *bufio.Writer / *bufio.Reader
	appendCall := map[*ast.CallExpr]bool{} // append(s, ...): writes behind len(s) in s's backing array
	ast.Inspect(f, func(n ast.Node) bool {
		switch st := n.(type) {
		case *ast.AssignStmt:
			for _, l := range st.Lhs {
				writes[l] = true
			}
		case *ast.IncDecStmt:
			writes[st.X] = true
		case *ast.UnaryExpr:
			if st.Op == token.AND {
				skip[st.X] = true
			}
		case *ast.IndexExpr:
			if r.isMap(st.X) {
				mapIdx[st] = true
			} else if r.isSlice(st.X) {
				sliceIdx[st] = true
			}
		case *ast.CallExpr:
			if id, ok := st.Fun.(*ast.Ident); ok && len(st.Args) >= 1 && r.isMap(st.Args[0]) {
				switch id.Name {
				case "delete":
					mapCall[st] = "MapW"
				case "len":
					mapCall[st] = "MapR"
				}
			}
			if id, ok := st.Fun.(*ast.Ident); ok && id.Name == "append" && len(st.Args) >= 1 && r.isSlice(st.Args[0]) {
				appendCall[st] = true
			}
			if id, ok := st.Fun.(*ast.Ident); ok && id.Name == "copy" && len(st.Args) == 2 && r.isSlice(st.Args[0]) {
				copyCall[st] = r.isSlice(st.Args[1])
			}
			// a *bufio.Reader / *bufio.Writer handed to another function (buffs.WriteTo(w), http.ReadRequest(br))
			// is used by the callee: a write to the object at the call
			for i, a := range st.Args {
				if tv, ok := r.info.Types[a]; ok && tv.Type != nil {
					if pt, ok := tv.Type.(*types.Pointer); ok {
						if n, ok := pt.Elem().(*types.Named); ok && n.Obj().Pkg() != nil && n.Obj().Pkg().Path() == "bufio" {
							if _, isCall := a.(*ast.CallExpr); !isCall { // (a freshly constructed object is not shared yet)
								stdArg[st] = append(stdArg[st], i)
							}
						}
					}
				}
			}
			// method calls on pointers to unsynchronised std-lib objects (bytes.Buffer, bufio.Reader/Writer):
			// the object is one plain location, read-only methods are reads, all others writes
			if se, ok := st.Fun.(*ast.SelectorExpr); ok {
				if sl, ok := r.info.Selections[se]; ok && sl.Kind() == types.MethodVal {
					if pt, ok := r.info.Types[se.X].Type.(*types.Pointer); ok {
						if n, ok := pt.Elem().(*types.Named); ok && n.Obj().Pkg() != nil {
							switch n.Obj().Pkg().Path() + "." + n.Obj().Name() {
							case "bytes.Buffer", "bufio.Writer", "bufio.Reader", "bufio.ReadWriter":
								switch se.Sel.Name {
								case "Len", "Cap", "Bytes", "String", "Available", "Buffered", "Size":
									stdCall[st] = "ObjR|" + n.Obj().Pkg().Path() + "." + n.Obj().Name()
								default:
									stdCall[st] = "ObjW|" + n.Obj().Pkg().Path() + "." + n.Obj().Name()
								}
							}
						}
					}
				}
			}
		}
		return true
	})
	astutil.Apply(f, nil, func(c *astutil.Cursor) bool {
		switch n := c.Node().(type) {
		case *ast.IndexExpr:
			if sliceIdx[n] && !skip[n] {
				fn := "SliceR"
				if writes[n] {
					fn = "SliceW"
				}
				r.used = true
				n.X = call("vsched", fn, n.X, lit("slice contents|"+r.funcOf(n)+"|"+r.pos(n)))
				return true
			}
			if mapIdx[n] {
				fn := "MapR"
				if writes[n] {
					fn = "MapW"
				}
				r.used = true
				n.X = call("vsched", fn, n.X, lit("map|"+r.funcOf(n)+"|"+r.pos(n)))
				return true
			}
		case *ast.CallExpr:
			if fn, ok := mapCall[n]; ok {
				r.used = true
				n.Args[0] = call("vsched", fn, n.Args[0], lit("map|"+r.funcOf(n)+"|"+r.pos(n)))
				return true
			}
			for _, i := range stdArg[n] {
				r.used = true
				n.Args[i] = call("vsched", "ObjW", n.Args[i], lit("bufio object (passed to a callee)|"+r.funcOf(n)+"|"+r.pos(n)))
			}
			if v, ok := stdCall[n]; ok {
				parts := strings.SplitN(v, "|", 2)
				se := n.Fun.(*ast.SelectorExpr)
				r.used = true
				se.X = call("vsched", parts[0], se.X, lit(parts[1]+" object|"+r.funcOf(n)+"|"+r.pos(n)))
				return true
			}
			if appendCall[n] {
				r.used = true
				n.Args[0] = call("vsched", "SliceA", n.Args[0], lit("slice contents|"+r.funcOf(n)+"|"+r.pos(n)))
				return true
			}
			if srcSlice, ok := copyCall[n]; ok {
				// the contents of the destination (and source) slice are plain memory
				r.used = true
				n.Args[0] = call("vsched", "SliceW", n.Args[0], lit("slice contents|"+r.funcOf(n)+"|"+r.pos(n)))
				if srcSlice {
					n.Args[1] = call("vsched", "SliceR", n.Args[1], lit("slice contents|"+r.funcOf(n)+"|"+r.pos(n)))
				}
				return true
			}
		}
		e, ok := c.Node().(ast.Expr)
		if !ok || skip[e] {
			return true
		}
		name, ok := r.fieldAccess(e)
		if !ok {
			return true
		}
		// do not touch the Sel identifier position of a parent selector etc.: only expression positions
		fn := "Rd"
		if writes[e] {
			fn = "Wr"
		}
		r.used = true
		c.Replace(&ast.StarExpr{X: call("vsched", fn, &ast.UnaryExpr{Op: token.AND, X: e}, lit(name+"|"+r.funcOf(e)+"|"+r.pos(e)))})
		return true
	})
}

func simpleArg(e ast.Expr) bool {
	switch v := e.(type) {
	case *ast.Ident, *ast.BasicLit:
		return true
	case *ast.SelectorExpr:
		return simpleArg(v.X)
	case *ast.FuncLit:
		return true
	}
	return false
}

func (r *rw) apply(f *ast.File) {
	r.collectFuncs(f)
	// type facts needed by pass 2, taken before the race rewrite replaces operands by synthesised
	// (untyped) calls: ranges over maps / channels, len() and close() of channels
	mapRange, chanRange, chanCall := map[*ast.RangeStmt]bool{}, map[*ast.RangeStmt]bool{}, map[*ast.CallExpr]bool{}
	ast.Inspect(f, func(n ast.Node) bool {
		switch st := n.(type) {
		case *ast.RangeStmt:
			mapRange[st], chanRange[st] = r.isMap(st.X), r.isChan(st.X)
		case *ast.CallExpr:
			if id, ok := st.Fun.(*ast.Ident); ok && len(st.Args) == 1 && (id.Name == "len" || id.Name == "close") && r.isChan(st.Args[0]) {
				chanCall[st] = true
			}
		}
		return true
	})
	if raceMode {
		r.raceRewrite(f)
	}
	// pass 1: selects (so that their comm statements are not touched by pass 2)
	inSelectComm := map[ast.Node]bool{}
	twoValRecv := map[*ast.UnaryExpr]bool{} // v, ok := <-ch outside select
	astutil.Apply(f, func(c *astutil.Cursor) bool {
		if as, ok := c.Node().(*ast.AssignStmt); ok && len(as.Lhs) == 2 && len(as.Rhs) == 1 {
			if u, ok := as.Rhs[0].(*ast.UnaryExpr); ok && u.Op == token.ARROW {
				twoValRecv[u] = true
			}
		}
		if vs, ok := c.Node().(*ast.ValueSpec); ok && len(vs.Names) == 2 && len(vs.Values) == 1 {
			if u, ok := vs.Values[0].(*ast.UnaryExpr); ok && u.Op == token.ARROW {
				twoValRecv[u] = true
			}
		}
		if s, ok := c.Node().(*ast.SelectStmt); ok {
			for _, cl := range s.Body.List {
				if cm := cl.(*ast.CommClause).Comm; cm != nil {
					inSelectComm[cm] = true
					switch st := cm.(type) {
					case *ast.ExprStmt:
						inSelectComm[st.X] = true
					case *ast.AssignStmt:
						inSelectComm[st.Rhs[0]] = true
					}
				}
			}
		}
		return true
	}, func(c *astutil.Cursor) bool {
		if s, ok := c.Node().(*ast.SelectStmt); ok {
			c.Replace(r.rewriteSelect(s))
		}
		return true
	})
	// pass 2: everything else
	astutil.Apply(f, nil, func(c *astutil.Cursor) bool {
		switch n := c.Node().(type) {
		case *ast.GoStmt:
			r.used = true
			// arguments are evaluated by the go statement itself, not by the new goroutine: hoist the non-trivial ones
			var hoist []ast.Stmt
			for i, a := range n.Call.Args {
				if !simpleArg(a) {
					id := ast.NewIdent(fmt.Sprintf("vga%d__", i))
					hoist = append(hoist, &ast.AssignStmt{Lhs: []ast.Expr{id}, Tok: token.DEFINE, Rhs: []ast.Expr{a}})
					n.Call.Args[i] = id
				}
			}
			goCall := &ast.ExprStmt{X: call("vsched", "Go", lit(r.pos(n)),
				&ast.FuncLit{Type: &ast.FuncType{Params: &ast.FieldList{}}, Body: &ast.BlockStmt{List: []ast.Stmt{&ast.ExprStmt{X: n.Call}}}})}
			if len(hoist) > 0 {
				c.Replace(&ast.BlockStmt{List: append(hoist, goCall)})
			} else {
				c.Replace(goCall)
			}
		case *ast.SendStmt:
			if !inSelectComm[n] {
				r.used = true
				c.Replace(&ast.ExprStmt{X: call("vsched", "Send", lit(r.pos(n)), n.Chan, n.Value)})
			}
		case *ast.UnaryExpr:
			if n.Op == token.ARROW && !inSelectComm[n] {
				r.used = true
				fn := "Recv"
				if twoValRecv[n] {
					fn = "Recv2"
				}
				c.Replace(call("vsched", fn, lit(r.pos(n)), n.X))
			}
		case *ast.CallExpr:
			if id, ok := n.Fun.(*ast.Ident); ok && len(n.Args) == 1 && chanCall[n] {
				switch id.Name {
				case "len":
					r.used = true
					c.Replace(call("vsched", "Len", lit(r.pos(n)), n.Args[0]))
				case "close":
					r.used = true
					c.Replace(call("vsched", "Close", lit(r.pos(n)), n.Args[0]))
				}
			}
		case *ast.RangeStmt:
			if chanRange[n] {
				// for v := range ch { body }  =>  for { v, ok := Recv2(ch); if !ok { break }; body }
				r.used = true
				okID := ast.NewIdent("vok__")
				var lhs ast.Expr = ast.NewIdent("_")
				tok := token.DEFINE
				if n.Key != nil {
					lhs = n.Key
					if n.Tok == token.ASSIGN {
						// the loop variable exists already: v, vok__ = ... needs vok__ declared
						tok = token.ASSIGN
					}
				}
				var pre []ast.Stmt
				if tok == token.ASSIGN {
					pre = append(pre, &ast.DeclStmt{Decl: &ast.GenDecl{Tok: token.VAR, Specs: []ast.Spec{&ast.ValueSpec{Names: []*ast.Ident{okID}, Type: ast.NewIdent("bool")}}}})
				}
				pre = append(pre,
					&ast.AssignStmt{Lhs: []ast.Expr{lhs, okID}, Tok: tok, Rhs: []ast.Expr{call("vsched", "Recv2", lit(r.pos(n)), n.X)}},
					&ast.IfStmt{Cond: &ast.UnaryExpr{Op: token.NOT, X: okID}, Body: &ast.BlockStmt{List: []ast.Stmt{&ast.BranchStmt{Tok: token.BREAK}}}})
				c.Replace(&ast.ForStmt{Body: &ast.BlockStmt{List: append(pre, n.Body.List...)}})
				return true
			}
			if mapRange[n] {
				r.used = true
				var pre []ast.Stmt
				if k, ok := n.Key.(*ast.Ident); ok && k.Name != "_" {
					pre = append(pre, &ast.AssignStmt{Lhs: []ast.Expr{k}, Tok: n.Tok, Rhs: []ast.Expr{ast.NewIdent("vk__")}})
				}
				if v, ok := n.Value.(*ast.Ident); ok && v.Name != "_" {
					pre = append(pre, &ast.AssignStmt{Lhs: []ast.Expr{v}, Tok: n.Tok, Rhs: []ast.Expr{&ast.IndexExpr{X: n.X, Index: ast.NewIdent("vk__")}}})
				}
				if raceMode {
					// every iteration reads the map
					pre = append([]ast.Stmt{&ast.ExprStmt{X: call("vsched", "MapR", n.X, lit("map|"+r.funcOf(n)+"|"+r.pos(n)))}}, pre...)
				}
				n.Body.List = append(pre, n.Body.List...)
				n.Key, n.Value, n.Tok = ast.NewIdent("_"), ast.NewIdent("vk__"), token.DEFINE
				n.X = call("vsched", "SortedKeys", n.X)
			}
		}
		return true
	})
}

func instrumentPkg(dir, outDir string, overlay map[string]string) {
	fset := token.NewFileSet()
	ents, err := os.ReadDir(dir)
	if err != nil {
		panic(err)
	}
	var files []*ast.File
	var names []string
	for _, e := range ents {
		if strings.HasSuffix(e.Name(), ".go") && !strings.HasSuffix(e.Name(), "_test.go") {
			f, err := parser.ParseFile(fset, filepath.Join(dir, e.Name()), nil, 0)
			if err != nil {
				fatal("parse: %v", err)
			}
			files = append(files, f)
			names = append(names, e.Name())
		}
	}
	info := &types.Info{Types: map[ast.Expr]types.TypeAndValue{}, Selections: map[*ast.SelectorExpr]*types.Selection{}}
	conf := types.Config{Importer: importer.ForCompiler(fset, "source", nil), Error: func(err error) { fmt.Fprintln(os.Stderr, "typecheck:", err) }}
	tpkg, err := conf.Check(files[0].Name.Name, fset, files, info)
	if err != nil {
		fatal("typecheck %s: %v", dir, err)
	}
	os.MkdirAll(outDir, 0o755)
	for i, f := range files {
		r := &rw{fset: fset, info: info, file: names[i], pkg: tpkg}
		r.apply(f)
		changed := r.used
		for _, im := range f.Imports {
			p, _ := strconv.Unquote(im.Path.Value)
			if np, ok := importMap[p]; ok {
				if im.Name == nil {
					base := p[strings.LastIndex(p, "/")+1:]
					im.Name = ast.NewIdent(base)
				}
				im.Path.Value = strconv.Quote(np)
				changed = true
			}
		}
		if !changed {
			continue
		}
		if r.used {
			astutil.AddImport(fset, f, shimRoot+"vsched")
		}
		var buf bytes.Buffer
		if err := format.Node(&buf, fset, f); err != nil {
			panic(err)
		}
		op := filepath.Join(outDir, names[i])
		orig, _ := os.ReadFile(filepath.Join(dir, names[i]))
		var hdr []byte
		for _, ln := range strings.Split(string(orig), "\n") {
			if strings.HasPrefix(ln, "package ") {
				break
			}
			if strings.HasPrefix(ln, "//go:build") {
				hdr = append(hdr, (ln + "\n\n")...)
			}
		}
		os.WriteFile(op, append(hdr, buf.Bytes()...), 0o644)
		overlay[filepath.Join(dir, names[i])] = op
	}
}
