#!/usr/bin/env python3
"""Regenerates /verif/MANIFEST.json from the table below and validates it against the schema."""
import json, os, sys
V = os.path.dirname(os.path.dirname(os.path.abspath(__file__)))
props = [json.loads(l) for l in open(os.path.join(V, 'properties.jsonl'))]
checks = json.load(open(os.path.join(V, 'tools', 'checks.json')))
m = {
  "version": 1,
  "setup_cmd": "./run.sh setup",
  "hooks": {
    "guard": "verif",
    "enable": "no source hooks are committed to the repository: run.sh generates the instrumentation from the current working tree (tools/vinstr rewrites sync/atomic/time/context/go/select/channel operations onto the controlled scheduler) and injects it, the shims, the harnesses and a read-only export file with `go build -tags verif -overlay <generated.json>`; every added file carries //go:build verif",
    "baseline_off_cmd": "cd /repo && GOFLAGS=-mod=mod GOPROXY=off GOSUMDB=off GOTOOLCHAIN=local go test -vet=off -count=1 ./...",
    "source_commits": [],
    "add_only": True
  },
  "engines": [
    {"name": "vsched+explore", "path": "engine/", "serves_properties": [c["id"] for c in checks if c.get("engine", "E1") == "E1"],
     "kind_free_text": "hand-written stateless model checker for Go: cooperative controlled scheduler (engine/vsched + sync/atomic/time/context shims), source rewriter (tools/vinstr), DFS with iterative deviation bounding, happens-before state caching and process sharding (engine/explore); runs the real implementation"},
    {"name": "explore-enum", "path": "engine/explore", "serves_properties": [c["id"] for c in checks if c.get("engine") == "ENUM"],
     "kind_free_text": "exhaustive enumeration of operation sequences / input alphabets / environment answers against reference models, on the instrumented implementation (deterministic pools, virtual time)"}
  ],
  "checks": [],
  "not_applicable": [],
  "notes": "All checks are bounded exhaustive explorations of the real code; see DESIGN.md. known_findings.json lists recorded/fixed defects."
}
claimed = set()
for c in checks:
  claimed.add(c["id"])
  m["checks"].append({
    "property_id": c["id"],
    "quick_cmd": "./run.sh %s quick" % c["id"],
    "thorough_cmd": "./run.sh %s thorough" % c["id"],
    "evidence_file": "/verif/evidence/%s.json" % c["id"],
    "replay_cmd_template": "./run.sh %s replay {path}" % c["id"],
    "engine": "vsched+explore" if c.get("engine", "E1") == "E1" else "explore-enum",
    "level_claimed": {"category": "model_checking", "text": c["text"], "design_ref": c.get("ref", "DESIGN.md §5/" + c["id"])},
    "level_note": c["note"],
    "technique": c["technique"],
  })
for p in props:
  if p["id"] not in claimed:
    m["not_applicable"].append({"property_id": p["id"], "reason": "not claimed yet: its bounded-exhaustive check is planned in DESIGN.md §5 but not built/registered at this commit"})
json.dump(m, open(os.path.join(V, 'MANIFEST.json'), 'w'), indent=1)
try:
  import jsonschema
  jsonschema.validate(m, json.load(open('/root/.vp/MANIFEST.schema.json')))
  print("MANIFEST.json valid:", len(m["checks"]), "checks,", len(m["not_applicable"]), "not claimed")
except ImportError:
  print("jsonschema not available; not validated")
