//go:build verif

// Package vsync replaces "sync" in instrumented code.
package vsync

import (
	"github.com/go-netty/go-netty/zz_verif/vsched"
)

const (
	rd     = vsched.RD
	wr     = vsched.WR
	acq    = vsched.ACQ
	rel    = vsched.REL
	acqrel = vsched.RD | vsched.WR | vsched.ACQ | vsched.REL
)

type Locker interface {
	Lock()
	Unlock()
}

type Mutex struct {
	ref    vsched.Ref
	locked bool
}

func (m *Mutex) obj() *vsched.Obj { return m.ref.Get("mutex", func() { m.locked = false }) }

func (m *Mutex) Lock() {
	o := m.obj()
	vsched.Op("mutex.Lock", o, rd|wr|acq, func() bool { return !m.locked })
	vsched.Mutated()
	m.locked = true
}
func (m *Mutex) TryLock() bool {
	vsched.Op("mutex.TryLock", m.obj(), rd|wr|acq, nil)
	if m.locked {
		return false
	}
	vsched.Mutated()
	m.locked = true
	return true
}
func (m *Mutex) Unlock() {
	vsched.Op("mutex.Unlock", m.obj(), wr|rel, nil)
	if !m.locked {
		panic("sync: unlock of unlocked mutex")
	}
	vsched.Mutated()
	m.locked = false
}

type RWMutex struct {
	ref vsched.Ref
	w   bool
	r   int
}

func (m *RWMutex) obj() *vsched.Obj { return m.ref.Get("rwmutex", func() { m.w, m.r = false, 0 }) }

func (m *RWMutex) Lock() {
	vsched.Op("rw.Lock", m.obj(), rd|wr|acq, func() bool { return !m.w && m.r == 0 })
	vsched.Mutated()
	m.w = true
}
func (m *RWMutex) Unlock() {
	vsched.Op("rw.Unlock", m.obj(), wr|rel, nil)
	if !m.w {
		panic("sync: Unlock of unlocked RWMutex")
	}
	vsched.Mutated()
	m.w = false
}
func (m *RWMutex) RLock() {
	vsched.Op("rw.RLock", m.obj(), rd|wr|acq, func() bool { return !m.w })
	vsched.Mutated()
	m.r++
}
func (m *RWMutex) RUnlock() {
	vsched.Op("rw.RUnlock", m.obj(), wr|rel, nil)
	if m.r <= 0 {
		panic("sync: RUnlock of unlocked RWMutex")
	}
	vsched.Mutated()
	m.r--
}

// Map is insertion-ordered (deterministic Range).
type Map struct {
	ref   vsched.Ref
	m     map[any]any
	order []any
}

func (m *Map) obj() *vsched.Obj { return m.ref.Get("syncmap", func() { m.m, m.order = nil, nil }) }

func (m *Map) Load(k any) (any, bool) {
	vsched.Op("Map.Load", m.obj(), rd|acq, nil)
	v, ok := m.m[k]
	return v, ok
}
func (m *Map) Store(k, v any) {
	vsched.Op("Map.Store", m.obj(), wr|rel|acq, nil)
	vsched.Mutated()
	m.store(k, v)
}
func (m *Map) store(k, v any) {
	if m.m == nil {
		m.m = map[any]any{}
	}
	if _, ok := m.m[k]; !ok {
		m.order = append(m.order, k)
	}
	m.m[k] = v
}
func (m *Map) LoadOrStore(k, v any) (any, bool) {
	vsched.Op("Map.LoadOrStore", m.obj(), acqrel, nil)
	if old, ok := m.m[k]; ok {
		return old, true
	}
	vsched.Mutated()
	m.store(k, v)
	return v, false
}
func (m *Map) LoadAndDelete(k any) (any, bool) {
	vsched.Op("Map.LoadAndDelete", m.obj(), acqrel, nil)
	v, ok := m.m[k]
	if ok {
		m.del(k)
	}
	return v, ok
}
func (m *Map) del(k any) {
	vsched.Mutated()
	delete(m.m, k)
	for i, o := range m.order {
		if o == k {
			m.order = append(m.order[:i:i], m.order[i+1:]...)
			break
		}
	}
}
func (m *Map) Delete(k any) {
	vsched.Op("Map.Delete", m.obj(), acqrel, nil)
	if _, ok := m.m[k]; ok {
		m.del(k)
	}
}
func (m *Map) Range(f func(k, v any) bool) {
	vsched.Op("Map.Range", m.obj(), rd|acq, nil)
	keys := append([]any{}, m.order...)
	for _, k := range keys {
		vsched.Op("Map.Range.next", m.obj(), rd|acq, nil)
		v, ok := m.m[k]
		if !ok {
			continue
		}
		if !f(k, v) {
			break
		}
	}
}

// Pool is a deterministic LIFO with maximal reuse: the most adversarial legal
// behaviour of sync.Pool with respect to aliasing.
type Pool struct {
	New   func() any
	ref   vsched.Ref
	items []any
}

func (p *Pool) obj() *vsched.Obj { return p.ref.Get("pool", func() { p.items = nil }) }

func (p *Pool) Get() any {
	vsched.Op("Pool.Get", p.obj(), acqrel, nil)
	if n := len(p.items); n > 0 {
		vsched.Mutated()
		v := p.items[n-1]
		p.items[n-1] = nil
		p.items = p.items[:n-1]
		return v
	}
	if p.New != nil {
		return p.New()
	}
	return nil
}
func (p *Pool) Put(v any) {
	vsched.Op("Pool.Put", p.obj(), acqrel, nil)
	vsched.Mutated()
	p.items = append(p.items, v)
}

type Once struct {
	ref  vsched.Ref
	done bool
	m    Mutex
}

func (o *Once) Do(f func()) {
	vsched.Op("Once.Do", o.ref.Get("once", func() { o.done = false }), rd|acq, nil)
	if o.done {
		return
	}
	o.m.Lock()
	defer o.m.Unlock()
	if !o.done {
		defer func() { o.done = true; vsched.Mutated() }()
		f()
	}
}

type WaitGroup struct {
	ref vsched.Ref
	n   int
}

func (w *WaitGroup) obj() *vsched.Obj { return w.ref.Get("waitgroup", func() { w.n = 0 }) }
func (w *WaitGroup) Add(d int) {
	vsched.Op("wg.Add", w.obj(), acqrel, nil)
	vsched.Mutated()
	w.n += d
	if w.n < 0 {
		panic("sync: negative WaitGroup counter")
	}
}
func (w *WaitGroup) Done() { w.Add(-1) }
func (w *WaitGroup) Wait() {
	vsched.Op("wg.Wait", w.obj(), rd|acq, func() bool { return w.n == 0 })
}

// Cond mirrors sync.Cond on top of the controlled scheduler: Wait releases L, parks until a later
// Signal/Broadcast and re-acquires L.
type Cond struct {
	L       Locker
	ref     vsched.Ref
	waiters []*condWaiter
}

type condWaiter struct{ woken bool }

func NewCond(l Locker) *Cond { return &Cond{L: l} }

func (c *Cond) obj() *vsched.Obj { return c.ref.Get("cond", func() { c.waiters = nil }) }

func (c *Cond) Wait() {
	o := c.obj()
	w := &condWaiter{}
	c.waiters = append(c.waiters, w)
	c.L.Unlock()
	vsched.Op("cond.Wait", o, rd|wr|acq, func() bool { return w.woken })
	c.L.Lock()
}

func (c *Cond) Signal() {
	vsched.Op("cond.Signal", c.obj(), wr|rel, nil)
	if len(c.waiters) > 0 {
		c.waiters[0].woken = true
		c.waiters = c.waiters[1:]
		vsched.Mutated()
	}
}

func (c *Cond) Broadcast() {
	vsched.Op("cond.Broadcast", c.obj(), wr|rel, nil)
	for _, w := range c.waiters {
		w.woken = true
	}
	if len(c.waiters) > 0 {
		vsched.Mutated()
	}
	c.waiters = nil
}

// OnceFunc / OnceValue / OnceValues mirror the go1.21 helpers.
func OnceFunc(f func()) func() {
	var once Once
	return func() { once.Do(f) }
}

func OnceValue[T any](f func() T) func() T {
	var once Once
	var v T
	return func() T {
		once.Do(func() { v = f() })
		return v
	}
}

func OnceValues[T1, T2 any](f func() (T1, T2)) func() (T1, T2) {
	var once Once
	var a T1
	var b T2
	return func() (T1, T2) {
		once.Do(func() { a, b = f() })
		return a, b
	}
}
