//go:build verif

// Package vatomic replaces "sync/atomic" in instrumented code.
package vatomic

import (
	"unsafe"

	"github.com/go-netty/go-netty/zz_verif/vsched"
)

const all = vsched.RD | vsched.WR | vsched.ACQ | vsched.REL

func o(p unsafe.Pointer) *vsched.Obj { return vsched.ObjPtr(p, "atomic") }

// note records the atomic access in the race monitor's shadow memory (after the
// operation's acquire/release edges have been applied by vsched.Op).
func note(p unsafe.Pointer, write bool) { vsched.AtomicAccess(p, "atomic word|sync/atomic|", write) }

func CompareAndSwapInt32(p *int32, old, new int32) bool {
	vsched.Op("atomic.CAS32", o(unsafe.Pointer(p)), all, nil)
	note(unsafe.Pointer(p), true)
	if *p == old {
		*p = new
		vsched.Mutated()
		vsched.Logf("CAS %d->%d ok", old, new)
		return true
	}
	vsched.Logf("CAS %d->%d failed (is %d)", old, new, *p)
	return false
}
func LoadInt32(p *int32) int32 {
	vsched.Op("atomic.Load32", o(unsafe.Pointer(p)), vsched.RD|vsched.ACQ, nil)
	note(unsafe.Pointer(p), false)
	vsched.Logf("load = %d", *p)
	return *p
}
func StoreInt32(p *int32, v int32) {
	vsched.Op("atomic.Store32", o(unsafe.Pointer(p)), vsched.WR|vsched.REL, nil)
	note(unsafe.Pointer(p), true)
	if *p != v {
		vsched.Mutated()
	}
	vsched.Logf("store %d", v)
	*p = v
}
func AddInt32(p *int32, d int32) int32 {
	vsched.Op("atomic.Add32", o(unsafe.Pointer(p)), all, nil)
	note(unsafe.Pointer(p), true)
	*p += d
	vsched.Mutated()
	return *p
}
func SwapInt32(p *int32, v int32) int32 {
	vsched.Op("atomic.Swap32", o(unsafe.Pointer(p)), all, nil)
	note(unsafe.Pointer(p), true)
	old := *p
	*p = v
	vsched.Mutated()
	return old
}
func CompareAndSwapInt64(p *int64, old, new int64) bool {
	vsched.Op("atomic.CAS64", o(unsafe.Pointer(p)), all, nil)
	note(unsafe.Pointer(p), true)
	if *p == old {
		*p = new
		vsched.Mutated()
		return true
	}
	return false
}
func LoadInt64(p *int64) int64 {
	vsched.Op("atomic.Load64", o(unsafe.Pointer(p)), vsched.RD|vsched.ACQ, nil)
	note(unsafe.Pointer(p), false)
	return *p
}
func StoreInt64(p *int64, v int64) {
	vsched.Op("atomic.Store64", o(unsafe.Pointer(p)), vsched.WR|vsched.REL, nil)
	note(unsafe.Pointer(p), true)
	vsched.Mutated()
	*p = v
}
func AddInt64(p *int64, d int64) int64 {
	vsched.Op("atomic.Add64", o(unsafe.Pointer(p)), all, nil)
	note(unsafe.Pointer(p), true)
	*p += d
	vsched.Mutated()
	return *p
}
func LoadUint32(p *uint32) uint32 {
	vsched.Op("atomic.LoadU32", o(unsafe.Pointer(p)), vsched.RD|vsched.ACQ, nil)
	note(unsafe.Pointer(p), false)
	return *p
}
func StoreUint32(p *uint32, v uint32) {
	vsched.Op("atomic.StoreU32", o(unsafe.Pointer(p)), vsched.WR|vsched.REL, nil)
	note(unsafe.Pointer(p), true)
	vsched.Mutated()
	*p = v
}
func CompareAndSwapUint32(p *uint32, old, new uint32) bool {
	vsched.Op("atomic.CASU32", o(unsafe.Pointer(p)), all, nil)
	note(unsafe.Pointer(p), true)
	if *p == old {
		*p = new
		vsched.Mutated()
		return true
	}
	return false
}

// Typed atomics (subset).
type Int32 struct{ v int32 }

func (a *Int32) Load() int32                    { return LoadInt32(&a.v) }
func (a *Int32) Store(v int32)                  { StoreInt32(&a.v, v) }
func (a *Int32) Add(d int32) int32              { return AddInt32(&a.v, d) }
func (a *Int32) CompareAndSwap(o, n int32) bool { return CompareAndSwapInt32(&a.v, o, n) }
func (a *Int32) Swap(n int32) int32             { return SwapInt32(&a.v, n) }

type Int64 struct{ v int64 }

func (a *Int64) Load() int64                    { return LoadInt64(&a.v) }
func (a *Int64) Store(v int64)                  { StoreInt64(&a.v, v) }
func (a *Int64) Add(d int64) int64              { return AddInt64(&a.v, d) }
func (a *Int64) CompareAndSwap(o, n int64) bool { return CompareAndSwapInt64(&a.v, o, n) }

type Bool struct{ v int32 }

func (a *Bool) Load() bool { return LoadInt32(&a.v) != 0 }
func (a *Bool) Store(b bool) {
	var v int32
	if b {
		v = 1
	}
	StoreInt32(&a.v, v)
}
func (a *Bool) CompareAndSwap(o, n bool) bool {
	var ov, nv int32
	if o {
		ov = 1
	}
	if n {
		nv = 1
	}
	return CompareAndSwapInt32(&a.v, ov, nv)
}

type Value struct {
	v   any
	set int32
}

func (a *Value) Load() any {
	vsched.Op("atomic.Value.Load", o(unsafe.Pointer(&a.set)), vsched.RD|vsched.ACQ, nil)
	return a.v
}
func (a *Value) Store(v any) {
	vsched.Op("atomic.Value.Store", o(unsafe.Pointer(&a.set)), vsched.WR|vsched.REL, nil)
	vsched.Mutated()
	a.v = v
}

// Pointer mirrors atomic.Pointer[T].
type Pointer[T any] struct {
	p *T
}

func (a *Pointer[T]) Load() *T {
	vsched.Op("atomic.Pointer.Load", o(unsafe.Pointer(&a.p)), vsched.RD|vsched.ACQ, nil)
	note(unsafe.Pointer(&a.p), false)
	return a.p
}
func (a *Pointer[T]) Store(v *T) {
	vsched.Op("atomic.Pointer.Store", o(unsafe.Pointer(&a.p)), vsched.WR|vsched.REL, nil)
	note(unsafe.Pointer(&a.p), true)
	if a.p != v {
		vsched.Mutated()
	}
	a.p = v
}
func (a *Pointer[T]) Swap(v *T) *T {
	vsched.Op("atomic.Pointer.Swap", o(unsafe.Pointer(&a.p)), all, nil)
	note(unsafe.Pointer(&a.p), true)
	old := a.p
	a.p = v
	vsched.Mutated()
	return old
}
func (a *Pointer[T]) CompareAndSwap(old, new *T) bool {
	vsched.Op("atomic.Pointer.CAS", o(unsafe.Pointer(&a.p)), all, nil)
	note(unsafe.Pointer(&a.p), true)
	if a.p == old {
		a.p = new
		vsched.Mutated()
		return true
	}
	return false
}

// Uint32 / Uint64 / Uintptr-free subset used by Go code written against go1.19+ typed atomics.
type Uint32 struct{ v uint32 }

func (a *Uint32) Load() uint32                    { return LoadUint32(&a.v) }
func (a *Uint32) Store(v uint32)                  { StoreUint32(&a.v, v) }
func (a *Uint32) CompareAndSwap(o, n uint32) bool { return CompareAndSwapUint32(&a.v, o, n) }
func (a *Uint32) Add(d uint32) uint32 {
	vsched.Op("atomic.AddU32", o(unsafe.Pointer(&a.v)), all, nil)
	note(unsafe.Pointer(&a.v), true)
	a.v += d
	vsched.Mutated()
	return a.v
}

func (a *Int64) Swap(n int64) int64 {
	vsched.Op("atomic.Swap64", o(unsafe.Pointer(&a.v)), all, nil)
	note(unsafe.Pointer(&a.v), true)
	old := a.v
	a.v = n
	vsched.Mutated()
	return old
}

// ---- the rest of the sync/atomic surface (so that any change to the library still builds) ----

func rmw(name string, p unsafe.Pointer) {
	vsched.Op(name, o(p), all, nil)
	note(p, true)
	vsched.Mutated()
}
func ld(name string, p unsafe.Pointer) {
	vsched.Op(name, o(p), vsched.RD|vsched.ACQ, nil)
	note(p, false)
}
func st(name string, p unsafe.Pointer) {
	vsched.Op(name, o(p), vsched.WR|vsched.REL, nil)
	note(p, true)
	vsched.Mutated()
}

func AddUint32(p *uint32, d uint32) uint32 {
	rmw("atomic.AddU32", unsafe.Pointer(p))
	*p += d
	return *p
}
func AddUint64(p *uint64, d uint64) uint64 {
	rmw("atomic.AddU64", unsafe.Pointer(p))
	*p += d
	return *p
}
func AddUintptr(p *uintptr, d uintptr) uintptr {
	rmw("atomic.AddUptr", unsafe.Pointer(p))
	*p += d
	return *p
}
func LoadUint64(p *uint64) uint64    { ld("atomic.LoadU64", unsafe.Pointer(p)); return *p }
func LoadUintptr(p *uintptr) uintptr { ld("atomic.LoadUptr", unsafe.Pointer(p)); return *p }
func LoadPointer(p *unsafe.Pointer) unsafe.Pointer {
	ld("atomic.LoadPointer", unsafe.Pointer(p))
	return *p
}
func StoreUint64(p *uint64, v uint64)    { st("atomic.StoreU64", unsafe.Pointer(p)); *p = v }
func StoreUintptr(p *uintptr, v uintptr) { st("atomic.StoreUptr", unsafe.Pointer(p)); *p = v }
func StorePointer(p *unsafe.Pointer, v unsafe.Pointer) {
	st("atomic.StorePointer", unsafe.Pointer(p))
	*p = v
}
func SwapInt64(p *int64, v int64) int64 {
	rmw("atomic.Swap64", unsafe.Pointer(p))
	old := *p
	*p = v
	return old
}
func SwapUint32(p *uint32, v uint32) uint32 {
	rmw("atomic.SwapU32", unsafe.Pointer(p))
	old := *p
	*p = v
	return old
}
func SwapUint64(p *uint64, v uint64) uint64 {
	rmw("atomic.SwapU64", unsafe.Pointer(p))
	old := *p
	*p = v
	return old
}
func SwapUintptr(p *uintptr, v uintptr) uintptr {
	rmw("atomic.SwapUptr", unsafe.Pointer(p))
	old := *p
	*p = v
	return old
}
func SwapPointer(p *unsafe.Pointer, v unsafe.Pointer) unsafe.Pointer {
	rmw("atomic.SwapPointer", unsafe.Pointer(p))
	old := *p
	*p = v
	return old
}
func CompareAndSwapUint64(p *uint64, old, new uint64) bool {
	rmw("atomic.CASU64", unsafe.Pointer(p))
	if *p == old {
		*p = new
		return true
	}
	return false
}
func CompareAndSwapUintptr(p *uintptr, old, new uintptr) bool {
	rmw("atomic.CASUptr", unsafe.Pointer(p))
	if *p == old {
		*p = new
		return true
	}
	return false
}
func CompareAndSwapPointer(p *unsafe.Pointer, old, new unsafe.Pointer) bool {
	rmw("atomic.CASPointer", unsafe.Pointer(p))
	if *p == old {
		*p = new
		return true
	}
	return false
}
func AndInt32(p *int32, m int32) int32 {
	rmw("atomic.And32", unsafe.Pointer(p))
	o := *p
	*p &= m
	return o
}
func AndInt64(p *int64, m int64) int64 {
	rmw("atomic.And64", unsafe.Pointer(p))
	o := *p
	*p &= m
	return o
}
func AndUint32(p *uint32, m uint32) uint32 {
	rmw("atomic.AndU32", unsafe.Pointer(p))
	o := *p
	*p &= m
	return o
}
func AndUint64(p *uint64, m uint64) uint64 {
	rmw("atomic.AndU64", unsafe.Pointer(p))
	o := *p
	*p &= m
	return o
}
func AndUintptr(p *uintptr, m uintptr) uintptr {
	rmw("atomic.AndUptr", unsafe.Pointer(p))
	o := *p
	*p &= m
	return o
}
func OrInt32(p *int32, m int32) int32 {
	rmw("atomic.Or32", unsafe.Pointer(p))
	o := *p
	*p |= m
	return o
}
func OrInt64(p *int64, m int64) int64 {
	rmw("atomic.Or64", unsafe.Pointer(p))
	o := *p
	*p |= m
	return o
}
func OrUint32(p *uint32, m uint32) uint32 {
	rmw("atomic.OrU32", unsafe.Pointer(p))
	o := *p
	*p |= m
	return o
}
func OrUint64(p *uint64, m uint64) uint64 {
	rmw("atomic.OrU64", unsafe.Pointer(p))
	o := *p
	*p |= m
	return o
}
func OrUintptr(p *uintptr, m uintptr) uintptr {
	rmw("atomic.OrUptr", unsafe.Pointer(p))
	o := *p
	*p |= m
	return o
}

type Uint64 struct{ v uint64 }

func (a *Uint64) Load() uint64                    { return LoadUint64(&a.v) }
func (a *Uint64) Store(v uint64)                  { StoreUint64(&a.v, v) }
func (a *Uint64) Add(d uint64) uint64             { return AddUint64(&a.v, d) }
func (a *Uint64) Swap(v uint64) uint64            { return SwapUint64(&a.v, v) }
func (a *Uint64) CompareAndSwap(o, n uint64) bool { return CompareAndSwapUint64(&a.v, o, n) }
func (a *Uint32) Swap(v uint32) uint32            { return SwapUint32(&a.v, v) }

type Uintptr struct{ v uintptr }

func (a *Uintptr) Load() uintptr                    { return LoadUintptr(&a.v) }
func (a *Uintptr) Store(v uintptr)                  { StoreUintptr(&a.v, v) }
func (a *Uintptr) Add(d uintptr) uintptr            { return AddUintptr(&a.v, d) }
func (a *Uintptr) Swap(v uintptr) uintptr           { return SwapUintptr(&a.v, v) }
func (a *Uintptr) CompareAndSwap(o, n uintptr) bool { return CompareAndSwapUintptr(&a.v, o, n) }

func (a *Bool) Swap(n bool) bool {
	var nv int32
	if n {
		nv = 1
	}
	return SwapInt32(&a.v, nv) != 0
}
func (a *Value) Swap(v any) any {
	vsched.Op("atomic.Value.Swap", o(unsafe.Pointer(&a.set)), all, nil)
	vsched.Mutated()
	old := a.v
	a.v = v
	return old
}
func (a *Value) CompareAndSwap(old, new any) bool {
	vsched.Op("atomic.Value.CAS", o(unsafe.Pointer(&a.set)), all, nil)
	if a.v == old {
		a.v = new
		vsched.Mutated()
		return true
	}
	return false
}
