//go:build verif

// Package vatomic replaces "sync/atomic" in instrumented code.
package vatomic

import (
	"unsafe"

	"github.com/go-netty/go-netty/zz_verif/vsched"
)

const all = vsched.RD | vsched.WR | vsched.ACQ | vsched.REL

func o(p unsafe.Pointer) *vsched.Obj { return vsched.ObjPtr(p, "atomic") }

// note records the atomic access in the race monitor's shadow memory (after the
// operation's acquire/release edges have been applied by vsched.Op).
func note(p unsafe.Pointer, write bool) { vsched.AtomicAccess(p, "atomic word|sync/atomic|", write) }

func CompareAndSwapInt32(p *int32, old, new int32) bool {
	vsched.Op("atomic.CAS32", o(unsafe.Pointer(p)), all, nil)
	note(unsafe.Pointer(p), true)
	if *p == old {
		*p = new
		vsched.Mutated()
		vsched.Logf("CAS %d->%d ok", old, new)
		return true
	}
	vsched.Logf("CAS %d->%d failed (is %d)", old, new, *p)
	return false
}
func LoadInt32(p *int32) int32 {
	vsched.Op("atomic.Load32", o(unsafe.Pointer(p)), vsched.RD|vsched.ACQ, nil)
	note(unsafe.Pointer(p), false)
	vsched.Logf("load = %d", *p)
	return *p
}
func StoreInt32(p *int32, v int32) {
	vsched.Op("atomic.Store32", o(unsafe.Pointer(p)), vsched.WR|vsched.REL, nil)
	note(unsafe.Pointer(p), true)
	if *p != v {
		vsched.Mutated()
	}
	vsched.Logf("store %d", v)
	*p = v
}
func AddInt32(p *int32, d int32) int32 {
	vsched.Op("atomic.Add32", o(unsafe.Pointer(p)), all, nil)
	note(unsafe.Pointer(p), true)
	*p += d
	vsched.Mutated()
	return *p
}
func SwapInt32(p *int32, v int32) int32 {
	vsched.Op("atomic.Swap32", o(unsafe.Pointer(p)), all, nil)
	note(unsafe.Pointer(p), true)
	old := *p
	*p = v
	vsched.Mutated()
	return old
}
func CompareAndSwapInt64(p *int64, old, new int64) bool {
	vsched.Op("atomic.CAS64", o(unsafe.Pointer(p)), all, nil)
	note(unsafe.Pointer(p), true)
	if *p == old {
		*p = new
		vsched.Mutated()
		return true
	}
	return false
}
func LoadInt64(p *int64) int64 {
	vsched.Op("atomic.Load64", o(unsafe.Pointer(p)), vsched.RD|vsched.ACQ, nil)
	note(unsafe.Pointer(p), false)
	return *p
}
func StoreInt64(p *int64, v int64) {
	vsched.Op("atomic.Store64", o(unsafe.Pointer(p)), vsched.WR|vsched.REL, nil)
	note(unsafe.Pointer(p), true)
	vsched.Mutated()
	*p = v
}
func AddInt64(p *int64, d int64) int64 {
	vsched.Op("atomic.Add64", o(unsafe.Pointer(p)), all, nil)
	note(unsafe.Pointer(p), true)
	*p += d
	vsched.Mutated()
	return *p
}
func LoadUint32(p *uint32) uint32 {
	vsched.Op("atomic.LoadU32", o(unsafe.Pointer(p)), vsched.RD|vsched.ACQ, nil)
	note(unsafe.Pointer(p), false)
	return *p
}
func StoreUint32(p *uint32, v uint32) {
	vsched.Op("atomic.StoreU32", o(unsafe.Pointer(p)), vsched.WR|vsched.REL, nil)
	note(unsafe.Pointer(p), true)
	vsched.Mutated()
	*p = v
}
func CompareAndSwapUint32(p *uint32, old, new uint32) bool {
	vsched.Op("atomic.CASU32", o(unsafe.Pointer(p)), all, nil)
	note(unsafe.Pointer(p), true)
	if *p == old {
		*p = new
		vsched.Mutated()
		return true
	}
	return false
}

// Typed atomics (subset).
type Int32 struct{ v int32 }

func (a *Int32) Load() int32                    { return LoadInt32(&a.v) }
func (a *Int32) Store(v int32)                  { StoreInt32(&a.v, v) }
func (a *Int32) Add(d int32) int32              { return AddInt32(&a.v, d) }
func (a *Int32) CompareAndSwap(o, n int32) bool { return CompareAndSwapInt32(&a.v, o, n) }
func (a *Int32) Swap(n int32) int32             { return SwapInt32(&a.v, n) }

type Int64 struct{ v int64 }

func (a *Int64) Load() int64                    { return LoadInt64(&a.v) }
func (a *Int64) Store(v int64)                  { StoreInt64(&a.v, v) }
func (a *Int64) Add(d int64) int64              { return AddInt64(&a.v, d) }
func (a *Int64) CompareAndSwap(o, n int64) bool { return CompareAndSwapInt64(&a.v, o, n) }

type Bool struct{ v int32 }

func (a *Bool) Load() bool { return LoadInt32(&a.v) != 0 }
func (a *Bool) Store(b bool) {
	var v int32
	if b {
		v = 1
	}
	StoreInt32(&a.v, v)
}
func (a *Bool) CompareAndSwap(o, n bool) bool {
	var ov, nv int32
	if o {
		ov = 1
	}
	if n {
		nv = 1
	}
	return CompareAndSwapInt32(&a.v, ov, nv)
}

type Value struct {
	v   any
	set int32
}

func (a *Value) Load() any {
	vsched.Op("atomic.Value.Load", o(unsafe.Pointer(&a.set)), vsched.RD|vsched.ACQ, nil)
	return a.v
}
func (a *Value) Store(v any) {
	vsched.Op("atomic.Value.Store", o(unsafe.Pointer(&a.set)), vsched.WR|vsched.REL, nil)
	vsched.Mutated()
	a.v = v
}
