//go:build verif

// Package vcontext replaces "context" in instrumented code. Cancellation is a
// scheduler-visible operation and deadlines run on the virtual clock.
package vcontext

import (
	"context"
	"time"

	"github.com/go-netty/go-netty/zz_verif/vsched"
	"github.com/go-netty/go-netty/zz_verif/vtime"
)

type Context = context.Context
type CancelFunc = context.CancelFunc

var Canceled = context.Canceled
var DeadlineExceeded = context.DeadlineExceeded

func Background() Context { return context.Background() }
func TODO() Context       { return context.TODO() }

type cancelCtx struct {
	parent   Context
	done     chan struct{}
	err      error
	children []*cancelCtx
	deadline time.Time
	hasDl    bool
	timer    *vsched.VTimer
}

type ckey struct{}

func (c *cancelCtx) Deadline() (time.Time, bool) {
	if c.hasDl {
		return c.deadline, true
	}
	return c.parent.Deadline()
}
func (c *cancelCtx) Done() <-chan struct{} { return c.done }
func (c *cancelCtx) Err() error {
	vsched.Op("ctx.Err", vsched.ObjOf(c.done, "ctx"), vsched.RD|vsched.ACQ, nil)
	return c.err
}
func (c *cancelCtx) Value(k any) any {
	if _, ok := k.(ckey); ok {
		return c
	}
	return c.parent.Value(k)
}

func (c *cancelCtx) cancel(err error) {
	if c.err != nil {
		return
	}
	c.err = err
	vsched.Touch(vsched.ObjOf(c.done, "ctx"), vsched.WR|vsched.REL)
	vsched.MarkClosed(c.done)
	close(c.done)
	if c.timer != nil {
		c.timer.Stop()
	}
	for _, ch := range c.children {
		ch.cancel(err)
	}
}

func newCtx(parent Context) *cancelCtx {
	if parent == nil {
		panic("cannot create context from nil parent")
	}
	c := &cancelCtx{parent: parent, done: make(chan struct{})}
	if p, ok := parent.Value(ckey{}).(*cancelCtx); ok {
		vsched.Op("ctx.register", vsched.ObjOf(p.done, "ctx"), vsched.RD|vsched.WR|vsched.ACQ, nil)
		if p.err != nil {
			c.cancel(p.err)
		} else {
			p.children = append(p.children, c)
		}
	} else if parent.Done() != nil {
		panic("vcontext: parent context with a foreign Done channel is not supported under the scheduler")
	}
	return c
}

func WithCancel(parent Context) (Context, CancelFunc) {
	c := newCtx(parent)
	return c, func() {
		vsched.Op("ctx.cancel", vsched.ObjOf(c.done, "ctx"), vsched.RD|vsched.WR|vsched.REL, nil)
		c.cancel(context.Canceled)
	}
}

func WithDeadline(parent Context, d time.Time) (Context, CancelFunc) {
	c := newCtx(parent)
	c.deadline, c.hasDl = d, true
	if pd, ok := parent.Deadline(); ok && pd.Before(d) {
		c.deadline = pd
	}
	if vsched.X != nil && c.err == nil {
		dur := c.deadline.Sub(vtime.Epoch) - time.Duration(vsched.X.Now)
		if dur <= 0 {
			c.cancel(context.DeadlineExceeded)
		} else {
			c.timer = vsched.NewTimer(int64(dur), "deadline", func() {
				vsched.Op("ctx.deadline", vsched.ObjOf(c.done, "ctx"), vsched.RD|vsched.WR|vsched.REL, nil)
				c.cancel(context.DeadlineExceeded)
			})
		}
	}
	return c, func() {
		vsched.Op("ctx.cancel", vsched.ObjOf(c.done, "ctx"), vsched.RD|vsched.WR|vsched.REL, nil)
		c.cancel(context.Canceled)
	}
}

func WithTimeout(parent Context, d time.Duration) (Context, CancelFunc) {
	var now int64
	if vsched.X != nil {
		now = vsched.X.Now
	}
	return WithDeadline(parent, vtime.Epoch.Add(time.Duration(now)+d))
}

func WithValue(parent Context, k, v any) Context { return context.WithValue(parent, k, v) }

func Cause(c Context) error { return c.Err() }

// ---- cause-carrying variants and AfterFunc (go1.20/1.21) ----

type CancelCauseFunc = context.CancelCauseFunc

func WithCancelCause(parent Context) (Context, CancelCauseFunc) {
	c, cancel := WithCancel(parent)
	return c, func(error) { cancel() }
}

func WithDeadlineCause(parent Context, d time.Time, _ error) (Context, CancelFunc) {
	return WithDeadline(parent, d)
}

func WithTimeoutCause(parent Context, d time.Duration, _ error) (Context, CancelFunc) {
	return WithTimeout(parent, d)
}

func WithoutCancel(parent Context) Context { return context.WithoutCancel(parent) }

// AfterFunc runs f on its own (controlled) goroutine once ctx is done.
func AfterFunc(ctx Context, f func()) (stop func() bool) {
	stopped, started := false, false
	if ctx.Done() == nil {
		return func() bool { return true }
	}
	vsched.GoDaemon("context.AfterFunc", func() {
		vsched.Recv("ctx.Done", ctx.Done())
		if !stopped {
			started = true
			f()
		}
	})
	return func() bool {
		if started || stopped {
			return false
		}
		stopped = true
		return true
	}
}
