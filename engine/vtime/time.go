//go:build verif

// Package vtime replaces "time" in instrumented code: a virtual clock.
package vtime

import (
	"time"

	"github.com/go-netty/go-netty/zz_verif/vsched"
)

type Duration = time.Duration
type Time = time.Time
type Month = time.Month
type Location = time.Location

const (
	Nanosecond  = time.Nanosecond
	Microsecond = time.Microsecond
	Millisecond = time.Millisecond
	Second      = time.Second
	Minute      = time.Minute
	Hour        = time.Hour
)

var UTC = time.UTC

func Unix(s, ns int64) Time { return time.Unix(s, ns) }

func Sleep(d Duration) {
	vsched.Sleep(int64(d))
}

// Epoch is virtual time zero.
var Epoch = time.Unix(1_700_000_000, 0)

func Now() Time             { return Epoch.Add(time.Duration(vsched.NowNS())) }
func Since(t Time) Duration { return Now().Sub(t) }
func Until(t Time) Duration { return t.Sub(Now()) }

type Timer struct {
	t *vsched.VTimer
	C <-chan Time
}

// NewTimer / After / Tick deliver the (virtual) time on a native channel when they fire.
func NewTimer(d Duration) *Timer {
	if vsched.X == nil {
		panic("vtime.NewTimer in sequential mode")
	}
	vsched.Op("time.NewTimer", nil, 0, nil)
	ch := make(chan Time, 1)
	var vt *vsched.VTimer
	vt = vsched.NewTimer(int64(d), "chantimer", func() {
		select {
		case ch <- Epoch.Add(time.Duration(vsched.X.Now)):
			vsched.Touch(vsched.ObjOf(ch, "chan"), vsched.WR|vsched.REL)
			vsched.Mutated()
		default:
		}
	})
	vt.Inline = true
	return &Timer{t: vt, C: ch}
}

func After(d Duration) <-chan Time { return NewTimer(d).C }

type Ticker struct {
	t *vsched.VTimer
	C <-chan Time
}

func NewTicker(d Duration) *Ticker {
	tm := NewTimer(d)
	tm.t.Period = int64(d)
	return &Ticker{t: tm.t, C: tm.C}
}
func (t *Ticker) Stop() { vsched.Op("ticker.Stop", t.t.Obj, vsched.RD|vsched.WR, nil); t.t.Stop() }
func (t *Ticker) Reset(d Duration) {
	vsched.Op("ticker.Reset", t.t.Obj, vsched.RD|vsched.WR, nil)
	t.t.Period = int64(d)
	t.t.Reset(int64(d))
}
func Tick(d Duration) <-chan Time { return NewTicker(d).C }

func AfterFunc(d Duration, f func()) *Timer {
	if vsched.X == nil {
		panic("vtime.AfterFunc in sequential mode")
	}
	vsched.Op("time.AfterFunc", nil, 0, nil)
	t := &Timer{t: vsched.NewTimer(int64(d), "timer", f)}
	return t
}
func (t *Timer) Reset(d Duration) bool {
	vsched.Op("timer.Reset", t.t.Obj, vsched.RD|vsched.WR|vsched.REL, nil)
	return t.t.Reset(int64(d))
}
func (t *Timer) Stop() bool {
	vsched.Op("timer.Stop", t.t.Obj, vsched.RD|vsched.WR, nil)
	return t.t.Stop()
}

// remaining names of package time that library code may mention
type Weekday = time.Weekday
type ParseError = time.ParseError

const (
	Layout      = time.Layout
	ANSIC       = time.ANSIC
	UnixDate    = time.UnixDate
	RubyDate    = time.RubyDate
	RFC822      = time.RFC822
	RFC822Z     = time.RFC822Z
	RFC850      = time.RFC850
	RFC1123     = time.RFC1123
	RFC1123Z    = time.RFC1123Z
	RFC3339     = time.RFC3339
	RFC3339Nano = time.RFC3339Nano
	Kitchen     = time.Kitchen
	Stamp       = time.Stamp
	StampMilli  = time.StampMilli
	StampMicro  = time.StampMicro
	StampNano   = time.StampNano
	DateTime    = time.DateTime
	DateOnly    = time.DateOnly
	TimeOnly    = time.TimeOnly
)
