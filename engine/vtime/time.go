//go:build verif

// Package vtime replaces "time" in instrumented code: a virtual clock.
package vtime

import (
	"time"

	"github.com/go-netty/go-netty/zz_verif/vsched"
)

type Duration = time.Duration
type Time = time.Time
type Month = time.Month
type Location = time.Location

const (
	Nanosecond  = time.Nanosecond
	Microsecond = time.Microsecond
	Millisecond = time.Millisecond
	Second      = time.Second
	Minute      = time.Minute
	Hour        = time.Hour
)

var UTC = time.UTC

func Unix(s, ns int64) Time { return time.Unix(s, ns) }

func Sleep(d Duration) {
	vsched.Sleep(int64(d))
}

// Epoch is virtual time zero.
var Epoch = time.Unix(1_700_000_000, 0)

func Now() Time             { return Epoch.Add(time.Duration(vsched.NowNS())) }
func Since(t Time) Duration { return Now().Sub(t) }
func Until(t Time) Duration { return t.Sub(Now()) }

type Timer struct {
	t *vsched.VTimer
	C <-chan Time
}

func AfterFunc(d Duration, f func()) *Timer {
	if vsched.X == nil {
		panic("vtime.AfterFunc in sequential mode")
	}
	vsched.Op("time.AfterFunc", nil, 0, nil)
	t := &Timer{t: vsched.NewTimer(int64(d), "timer", f)}
	return t
}
func (t *Timer) Reset(d Duration) bool {
	vsched.Op("timer.Reset", t.t.Obj, vsched.RD|vsched.WR|vsched.REL, nil)
	return t.t.Reset(int64(d))
}
func (t *Timer) Stop() bool {
	vsched.Op("timer.Stop", t.t.Obj, vsched.RD|vsched.WR, nil)
	return t.t.Stop()
}
