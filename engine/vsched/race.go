//go:build verif

package vsched

import (
	"fmt"
	"unsafe"
)

// Race is a pair of conflicting accesses not ordered by happens-before.
type Race struct {
	Loc   string // field name
	First string // earlier access: kind, function, position, thread
	Later string
}

func (r Race) String() string { return fmt.Sprintf("race on %s: %s  <->  %s", r.Loc, r.First, r.Later) }

type access struct {
	t      int
	c      uint32
	pos    string
	thr    string
	atomic bool
}

type shadow struct {
	keep  unsafe.Pointer
	w     access
	hasW  bool
	reads []access
}

func hb(a access, t *Thread) bool {
	if a.t == t.ID {
		return true
	}
	return a.t < len(t.VC) && a.c <= t.VC[a.t]
}

func field(pos string) string {
	for i := 0; i < len(pos); i++ {
		if pos[i] == '|' {
			return pos[:i]
		}
	}
	return pos
}

func (x *Exec) access(p unsafe.Pointer, pos string, write bool) { x.accessA(p, pos, write, false) }

// AtomicAccess records an atomic operation on a word in the shadow memory: it never
// races with other atomics, but a plain access to the same word unordered with it does.
func AtomicAccess(p unsafe.Pointer, pos string, write bool) {
	if X != nil && X.cfg.Race {
		X.accessA(p, pos, write, true)
	}
}

func (x *Exec) accessA(p unsafe.Pointer, pos string, write bool, atomic bool) {
	t := x.cur
	if t == nil {
		return
	}
	k := uintptr(p)
	s := x.shadow[k]
	if s == nil {
		s = &shadow{keep: p}
		x.shadow[k] = s
	}
	for len(t.VC) <= t.ID {
		t.VC = append(t.VC, 0)
	}
	me := access{t: t.ID, c: t.VC[t.ID], pos: pos, thr: t.Name, atomic: atomic}
	if s.hasW && !hb(s.w, t) && !(atomic && s.w.atomic) {
		kind := "read"
		if write {
			kind = "write"
		}
		x.Races = append(x.Races, Race{Loc: field(pos), First: "write " + s.w.pos + " by " + s.w.thr, Later: kind + " " + pos + " by " + t.Name})
	}
	if write {
		for _, r := range s.reads {
			if !hb(r, t) && !(atomic && r.atomic) {
				x.Races = append(x.Races, Race{Loc: field(pos), First: "read " + r.pos + " by " + r.thr, Later: "write " + pos + " by " + t.Name})
			}
		}
		s.w, s.hasW = me, true
		s.reads = s.reads[:0]
		return
	}
	for i := range s.reads {
		if s.reads[i].t == t.ID {
			s.reads[i] = me
			return
		}
	}
	s.reads = append(s.reads, me)
}

// Accesses counts instrumented plain accesses (evidence).
var Accesses int64

// Rd / Wr wrap plain field accesses in race-mode builds: *vsched.Rd(&x.f, pos).
func Rd[T any](p *T, pos string) *T {
	if X != nil && X.cfg.Race {
		Accesses++
		X.access(unsafe.Pointer(p), pos, false)
	}
	return p
}

func Wr[T any](p *T, pos string) *T {
	if X != nil && X.cfg.Race {
		Accesses++
		X.access(unsafe.Pointer(p), pos, true)
	}
	return p
}

// MapR / MapW wrap map operands in race-mode builds: vsched.MapW(m, pos)[k] = v. The
// whole map is one location (the Go race detector treats maps the same way).
func MapR[M ~map[K]V, K comparable, V any](m M, pos string) M {
	if X != nil && X.cfg.Race && m != nil {
		Accesses++
		_, p := chanPtr(m)
		X.access(unsafe.Pointer(p), pos, false)
	}
	return m
}

func MapW[M ~map[K]V, K comparable, V any](m M, pos string) M {
	if X != nil && X.cfg.Race && m != nil {
		Accesses++
		_, p := chanPtr(m)
		X.access(unsafe.Pointer(p), pos, true)
	}
	return m
}

// Plain records an access to a harness-defined pseudo location (e.g. the state of a
// transport implementation that is not safe for concurrent use).
func Plain(loc *byte, pos string, write bool) {
	if X != nil && X.cfg.Race {
		Accesses++
		X.access(unsafe.Pointer(loc), pos, write)
	}
}

// SliceW / SliceR wrap the operands of copy() in race-mode builds: the contents of the
// slice (identified by its first element) are one plain location.
func SliceW[S ~[]E, E any](s S, pos string) S {
	if X != nil && X.cfg.Race && len(s) > 0 {
		Accesses++
		X.access(unsafe.Pointer(&s[0]), pos, true)
	}
	return s
}

func SliceR[S ~[]E, E any](s S, pos string) S {
	if X != nil && X.cfg.Race && len(s) > 0 {
		Accesses++
		X.access(unsafe.Pointer(&s[0]), pos, false)
	}
	return s
}

// ObjW / ObjR wrap the receiver of a method call on an unsynchronised std-lib object
// (bytes.Buffer, bufio.Reader/Writer) in race-mode builds: the object is one plain location.
func ObjW[T any](p *T, pos string) *T {
	if X != nil && X.cfg.Race && p != nil {
		Accesses++
		X.access(unsafe.Pointer(p), pos, true)
	}
	return p
}

func ObjR[T any](p *T, pos string) *T {
	if X != nil && X.cfg.Race && p != nil {
		Accesses++
		X.access(unsafe.Pointer(p), pos, false)
	}
	return p
}

// SliceA wraps the first operand of append(): a write to the backing array of s (identified by
// its first element; an empty slice with spare capacity is identified by the start of that capacity).
func SliceA[S ~[]E, E any](s S, pos string) S {
	if X != nil && X.cfg.Race && cap(s) > 0 {
		Accesses++
		full := s[:cap(s)]
		// without spare capacity append only copies the elements into a new array (a read)
		X.access(unsafe.Pointer(&full[0]), pos, len(s) < cap(s))
	}
	return s
}
