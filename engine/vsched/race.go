//go:build verif

package vsched

import (
	"fmt"
	"unsafe"
)

// Race is a pair of conflicting accesses not ordered by happens-before.
type Race struct {
	Loc   string // field name
	First string // earlier access: kind, function, position, thread
	Later string
}

func (r Race) String() string { return fmt.Sprintf("race on %s: %s  <->  %s", r.Loc, r.First, r.Later) }

type access struct {
	t   int
	c   uint32
	pos string
	thr string
}

type shadow struct {
	keep  unsafe.Pointer
	w     access
	hasW  bool
	reads []access
}

func hb(a access, t *Thread) bool {
	if a.t == t.ID {
		return true
	}
	return a.t < len(t.VC) && a.c <= t.VC[a.t]
}

func field(pos string) string {
	for i := 0; i < len(pos); i++ {
		if pos[i] == '|' {
			return pos[:i]
		}
	}
	return pos
}

func (x *Exec) access(p unsafe.Pointer, pos string, write bool) {
	t := x.cur
	if t == nil {
		return
	}
	k := uintptr(p)
	s := x.shadow[k]
	if s == nil {
		s = &shadow{keep: p}
		x.shadow[k] = s
	}
	for len(t.VC) <= t.ID {
		t.VC = append(t.VC, 0)
	}
	me := access{t: t.ID, c: t.VC[t.ID], pos: pos, thr: t.Name}
	if s.hasW && !hb(s.w, t) {
		kind := "read"
		if write {
			kind = "write"
		}
		x.Races = append(x.Races, Race{Loc: field(pos), First: "write " + s.w.pos + " by " + s.w.thr, Later: kind + " " + pos + " by " + t.Name})
	}
	if write {
		for _, r := range s.reads {
			if !hb(r, t) {
				x.Races = append(x.Races, Race{Loc: field(pos), First: "read " + r.pos + " by " + r.thr, Later: "write " + pos + " by " + t.Name})
			}
		}
		s.w, s.hasW = me, true
		s.reads = s.reads[:0]
		return
	}
	for i := range s.reads {
		if s.reads[i].t == t.ID {
			s.reads[i] = me
			return
		}
	}
	s.reads = append(s.reads, me)
}

// Accesses counts instrumented plain accesses (evidence).
var Accesses int64

// Rd / Wr wrap plain field accesses in race-mode builds: *vsched.Rd(&x.f, pos).
func Rd[T any](p *T, pos string) *T {
	if X != nil && X.cfg.Race {
		Accesses++
		X.access(unsafe.Pointer(p), pos, false)
	}
	return p
}

func Wr[T any](p *T, pos string) *T {
	if X != nil && X.cfg.Race {
		Accesses++
		X.access(unsafe.Pointer(p), pos, true)
	}
	return p
}

// MapRd / MapWr record accesses to a map as a whole.
func MapRd(m any, pos string) {
	if X != nil && X.cfg.Race {
		Accesses++
		_, p := chanPtr(m)
		X.access(unsafe.Pointer(p), pos, false)
	}
}

func MapWr(m any, pos string) {
	if X != nil && X.cfg.Race {
		Accesses++
		_, p := chanPtr(m)
		X.access(unsafe.Pointer(p), pos, true)
	}
}
