//go:build verif

// Package vsched is the cooperative controlled scheduler under which the
// instrumented go-netty code runs. Exactly one controlled thread runs at a
// time; every visible operation (atomics, locks, channel ops, context, pool,
// timers, mock transport calls) is preceded by a scheduling point (Op) at which
// the driver decides who runs next. All nondeterminism is a recorded integer
// choice, so an execution is replayed exactly from its choice sequence.
//
// When X == nil ("sequential mode") all shims degrade to plain deterministic
// single-threaded behaviour; a blocking operation that is not ready panics.
package vsched

import (
	"fmt"
	"os"
	"reflect"
	"runtime"
	"sort"
	"strings"
	"sync/atomic"
	"time"
	"unsafe"
)

// Mode describes what an operation does to its object.
type Mode uint8

const (
	RD  Mode = 1 << iota // result depends on the object's state
	WR                   // may change the object's state
	ACQ                  // acquire edge for the race monitor
	REL                  // release edge for the race monitor
)

// Obj is the scheduler's view of one shared object.
type Obj struct {
	ID   int
	Name string
	H    uint64   // causal-history hash
	L    []uint32 // release clock (race mode)
	keep any
}

// Ref is embedded in shim objects; it caches the per-execution *Obj.
type Ref struct {
	x *Exec
	o *Obj
}

type Thread struct {
	ID       int
	Name     string
	Daemon   bool
	gate     chan struct{}
	ready    func() bool
	desc     string
	obj      *Obj
	done     bool
	wake     int64 // virtual ns deadline while sleeping; 0 = not sleeping
	seen     map[uint64]uint64
	stutter  bool
	stutterV uint64
	H        uint64
	VC       []uint32
	Blocked  int // number of times this thread was found disabled at a scheduling point
	steps    int
	// StartStep is the scheduling step at which the thread first ran (-1: never).
	StartStep int
}

// Point is one recorded choice.
type Point struct {
	Kind       byte // 's' scheduling, 'c' data/environment choice
	N          int  // number of alternatives
	Chosen     int
	CurEnabled bool // 's': the running thread was still enabled (alt>0 is a preemption)
	TickAlt    bool // 's': the last alternative is "advance the virtual clock early"
	Cost       int  // 'c': cost of a non-default answer
	Desc       string
	Sig        uint64 // signature of the choice point (kind, alternatives, who is enabled / what is asked)
}

// AltCost is the deviation cost of choosing alternative alt at p.
func (p *Point) AltCost(alt int) int {
	if alt == 0 {
		return 0
	}
	if p.Kind == 'c' {
		return p.Cost
	}
	if p.TickAlt && alt == p.N-1 {
		return 1
	}
	if p.CurEnabled {
		return 1
	}
	return 0
}

type Config struct {
	Prefix []int
	// PrefixSigs, when set, are the signatures the points of the prefix had in the execution the
	// prefix was taken from: any difference while replaying is an engine error (hidden nondeterminism).
	PrefixSigs []uint64
	MaxSteps   int   // step horizon (default 20000)
	Horizon    int64 // virtual-time horizon in ns (default 1h)
	Trace      bool
	EarlyTicks bool // offer "advance the clock" as a cost-1 alternative while threads are enabled
	Race       bool // maintain vector clocks and check Rd/Wr accesses
	// OnStep, when set, runs at every scheduling point before the next operation is
	// chosen (all earlier operations are complete): harness invariants / sampling.
	OnStep func(x *Exec)
	// State caching (optional): Visited maps a state key to the largest remaining
	// budget it was expanded with; Bound is the deviation bound of this run.
	Visited map[uint64]int8
	Bound   int
}

type Exec struct {
	cfg      Config
	threads  []*Thread
	cur      *Thread
	back     chan struct{}
	aborting bool
	Points   []Point
	Now      int64
	closed   map[uintptr]any
	objs     map[uintptr]*Obj
	nobj     int
	timers   []*VTimer
	Version  uint64
	soloV    uint64 // stutter detection for a lone live thread
	soloN    int
	forced   int
	steps    int
	live     int
	cost     int

	Deadlock  bool
	Livelock  bool
	Capped    bool
	Pruned    bool
	Stuck     []string // threads blocked at a deadlock
	Log       []string
	Panics    []string // controlled threads that died with a panic
	Races     []Race
	StatesNew int // states first visited by this execution (cache mode)
	Ticks     int // early clock ticks taken
	clock     *Obj
	shadow    map[uintptr]*shadow
	User      any // harness-owned per-execution data
}

// X is the current execution (nil in sequential mode).
var X *Exec

var wdSteps int64 // watchdog progress counter

var realStderr = os.Stderr // harness workers redirect os.Stderr (library noise)

func init() {
	go func() {
		var last int64 = -1
		idle := 0
		for {
			time.Sleep(5 * time.Second)
			cur := atomic.LoadInt64(&wdSteps)
			if X != nil && cur == last {
				idle++
				if idle >= 6 {
					buf := make([]byte, 1<<20)
					n := runtime.Stack(buf, true)
					fmt.Fprintf(realStderr, "vsched: ENGINE ERROR watchdog: no scheduling point reached for 30s\n%s\n", buf[:n])
					os.Exit(2)
				}
			} else {
				idle = 0
			}
			last = cur
		}
	}()
}

func mix(h uint64, vs ...uint64) uint64 {
	for _, v := range vs {
		h ^= v + 0x9e3779b97f4a7c15 + (h << 6) + (h >> 2)
		h *= 0xff51afd7ed558ccd
		h ^= h >> 33
	}
	return h
}

func shash(s string) uint64 {
	var h uint64 = 1469598103934665603
	for i := 0; i < len(s); i++ {
		h = (h ^ uint64(s[i])) * 1099511628211
	}
	return h
}

func (x *Exec) logf(f string, a ...any) {
	if x.Log != nil {
		x.Log = append(x.Log, fmt.Sprintf(f, a...))
	}
}

// Logf appends to the trace of a traced execution (no-op otherwise).
func Logf(f string, a ...any) {
	if X != nil && X.Log != nil {
		X.Log = append(X.Log, "      . "+fmt.Sprintf(f, a...))
	}
}

// ---- objects ----

// ObjOf returns the scheduler object for a pointer-like value (pointer, chan, map).
func ObjOf(p any, name string) *Obj {
	x := X
	if x == nil {
		return nil
	}
	k := reflect.ValueOf(p).Pointer()
	if o, ok := x.objs[k]; ok {
		return o
	}
	x.nobj++
	o := &Obj{ID: x.nobj, Name: name, keep: p, H: uint64(x.nobj)}
	x.objs[k] = o
	return o
}

// ObjPtr is ObjOf for an unsafe pointer (atomics on plain words).
func ObjPtr(p unsafe.Pointer, name string) *Obj {
	x := X
	if x == nil {
		return nil
	}
	k := uintptr(p)
	if o, ok := x.objs[k]; ok {
		return o
	}
	x.nobj++
	o := &Obj{ID: x.nobj, Name: name, keep: p, H: uint64(x.nobj)}
	x.objs[k] = o
	return o
}

// Get returns the per-execution object of a shim; reset (may be nil) is called
// the first time the shim is used in a new execution so that state surviving in
// package-level variables (e.g. global pools) never leaks between executions.
func (r *Ref) Get(name string, reset func()) *Obj {
	x := X
	if x == nil {
		if r.x != nil {
			r.x, r.o = nil, nil
			if reset != nil {
				reset()
			}
		}
		return nil
	}
	if r.x != x {
		if r.x != nil && reset != nil {
			reset()
		}
		x.nobj++
		r.x, r.o = x, &Obj{ID: x.nobj, Name: name, H: uint64(x.nobj)}
	}
	return r.o
}

// ---- choice points ----

func (x *Exec) choose(kind byte, n int, curEnabled, tickAlt bool, cost int, desc string, sig uint64) int {
	i := len(x.Points)
	c := 0
	sig = mix(sig, uint64(kind), uint64(n), shash(desc))
	if i < len(x.cfg.Prefix) {
		c = x.cfg.Prefix[i]
		if c >= n || c < 0 {
			panic(engineError(fmt.Sprintf("replay divergence at point %d: choice %d of %d (%s)", i, c, n, desc)))
		}
		if i < len(x.cfg.PrefixSigs) && x.cfg.PrefixSigs[i] != sig {
			panic(engineError(fmt.Sprintf("replay divergence at point %d: the choice point differs from the recorded execution (%c %d alternatives %s)", i, kind, n, desc)))
		}
	}
	p := Point{Kind: kind, N: n, Chosen: c, CurEnabled: curEnabled, TickAlt: tickAlt, Cost: cost, Desc: desc, Sig: sig}
	x.Points = append(x.Points, p)
	x.cost += p.AltCost(c)
	return c
}

type engineError string

func (e engineError) Error() string { return "vsched: ENGINE ERROR: " + string(e) }

// Choose is a free data/environment choice (all alternatives explored at every bound).
func Choose(n int, desc string) int {
	if n <= 1 || X == nil {
		return 0
	}
	c := X.choose('c', n, false, false, 0, desc, 0)
	if t := X.cur; t != nil {
		t.H = mix(t.H, uint64(c)+77)
	}
	if X.Log != nil {
		X.logf("      ? choose %s -> %d/%d", desc, c, n)
	}
	return c
}

// ChooseDev is an environment choice whose non-default answers cost one deviation.
func ChooseDev(n int, desc string) int {
	if n <= 1 || X == nil {
		return 0
	}
	c := X.choose('c', n, false, false, 1, desc, 0)
	if t := X.cur; t != nil {
		t.H = mix(t.H, uint64(c)+99)
	}
	if X.Log != nil {
		X.logf("      ? choose* %s -> %d/%d", desc, c, n)
	}
	return c
}

// ---- threads ----

func (x *Exec) spawn(name string, body func()) *Thread {
	x.Version++
	t := &Thread{ID: len(x.threads), Name: name, gate: make(chan struct{}), StartStep: -1}
	if p := x.cur; p != nil {
		t.H = mix(p.H, uint64(t.ID)+1000)
		p.H = mix(p.H, 31337)
		if x.cfg.Race {
			t.VC = append([]uint32(nil), p.VC...)
			for len(t.VC) <= t.ID {
				t.VC = append(t.VC, 0)
			}
			t.VC[t.ID]++
			p.tick()
		}
	} else {
		t.H = uint64(t.ID) + 1
		if x.cfg.Race {
			t.VC = make([]uint32, t.ID+1)
			t.VC[t.ID] = 1
		}
	}
	x.threads = append(x.threads, t)
	x.live++
	go func() {
		<-t.gate
		defer func() {
			if r := recover(); r != nil {
				if ee, ok := r.(engineError); ok {
					fmt.Fprintln(realStderr, ee.Error())
					os.Exit(2)
				}
				if !x.aborting {
					buf := make([]byte, 4096)
					n := runtime.Stack(buf, false)
					x.Panics = append(x.Panics, fmt.Sprintf("%s: %v", t.Name, r))
					x.logf("[%d:%s] DIED WITH PANIC %v", t.ID, t.Name, r)
					x.logf("      | %s", strings.ReplaceAll(string(buf[:n]), "\n", "\n      | "))
				}
			}
			t.done = true
			x.live--
			x.Version++
			x.back <- struct{}{}
		}()
		if x.aborting {
			return
		}
		body()
	}()
	return t
}

func (t *Thread) tick() {
	for len(t.VC) <= t.ID {
		t.VC = append(t.VC, 0)
	}
	t.VC[t.ID]++
}

// Go spawns a controlled thread (the spawn itself is a scheduling point).
func Go(name string, body func()) *Thread {
	if X == nil {
		panic("vsched.Go outside an execution (sequential mode cannot spawn goroutines)")
	}
	Op("go "+name, nil, 0, nil)
	return X.spawn(name, body)
}

// GoDaemon spawns a thread that may legitimately stay blocked forever.
func GoDaemon(name string, body func()) *Thread {
	t := Go(name, body)
	t.Daemon = true
	return t
}

// Cur returns the running thread.
func Cur() *Thread {
	if X == nil {
		return nil
	}
	return X.cur
}

// SetDaemon marks the running thread as allowed to stay blocked at quiescence.
func SetDaemon(d bool) {
	if X != nil && X.cur != nil {
		X.cur.Daemon = d
	}
}

// Done reports whether the thread has finished.
func (t *Thread) Done() bool { return t.done }

// Join blocks until t has finished.
func Join(t *Thread) {
	Op("join "+t.Name, nil, RD, func() bool { return t.done })
	if c := Cur(); c != nil {
		c.H = mix(c.H, t.H)
		if X.cfg.Race {
			c.joinVC(t.VC)
		}
	}
}

func (t *Thread) joinVC(o []uint32) {
	for len(t.VC) < len(o) {
		t.VC = append(t.VC, 0)
	}
	for i, v := range o {
		if v > t.VC[i] {
			t.VC[i] = v
		}
	}
}

const soloQuietMax = 400

// Mutated records that shared state really changed (stutter detection).
func Mutated() {
	if X != nil {
		X.Version++
	}
}

func stackKey(desc string) uint64 {
	var pcs [12]uintptr
	n := runtime.Callers(3, pcs[:])
	h := shash(desc)
	for _, pc := range pcs[:n] {
		h = (h ^ uint64(pc)) * 1099511628211
	}
	return h
}

// Yield is an always-enabled scheduling point on no particular object.
func Yield(desc string) { Op(desc, nil, 0, nil) }

// Op is the scheduling point placed before a visible operation on o. The
// calling thread is enabled only while ready() holds (nil = always). When Op
// returns, the caller performs the operation; no other thread runs until the
// caller's next scheduling point.
func Op(desc string, o *Obj, mode Mode, ready func() bool) {
	x := X
	if x == nil {
		if ready != nil && !ready() {
			panic("vsched: operation would block in sequential mode: " + desc)
		}
		return
	}
	t := x.cur
	if x.aborting {
		runtime.Goexit()
	}
	if x.cfg.OnStep != nil {
		x.cfg.OnStep(x)
	}
	// fast path: a single live thread that is enabled and nothing else to choose
	// (a lone thread that made soloQuietMax steps without any mutation goes through the slow path so
	// that a spin loop is recognised as a livelock instead of running into the step cap)
	if x.Version != x.soloV {
		x.soloV, x.soloN = x.Version, 0
	} else {
		x.soloN++
	}
	if x.live == 1 && x.soloN < soloQuietMax && x.steps < x.cfg.MaxSteps && (ready == nil || ready()) && !(x.cfg.EarlyTicks && x.hasDeadline()) {
		x.steps++
		t.steps++
		atomic.AddInt64(&wdSteps, 1)
		if x.Log != nil {
			x.logStep(t, desc, o)
		}
		x.applyOp(t, desc, o, mode)
		return
	}
	if t.seen == nil {
		t.seen = map[uint64]uint64{}
	}
	k := stackKey(desc)
	if v, ok := t.seen[k]; ok && v == x.Version+1 {
		// same point, same stack, no mutation anywhere since the previous
		// visit: the thread re-read unchanged state. Park it until something changes.
		t.stutter, t.stutterV = true, x.Version
	}
	t.seen[k] = x.Version + 1
	t.ready, t.desc, t.obj = ready, desc, o
	x.back <- struct{}{}
	<-t.gate
	if x.aborting {
		runtime.Goexit()
	}
	t.ready = nil
	t.stutter = false
	x.applyOp(t, desc, o, mode)
}

func (x *Exec) applyOp(t *Thread, desc string, o *Obj, mode Mode) {
	if o == nil {
		t.H = mix(t.H, shash(desc))
		return
	}
	t.H = mix(t.H, uint64(o.ID), o.H, shash(desc))
	if mode&WR != 0 {
		o.H = mix(o.H, t.H)
	}
	if x.cfg.Race {
		if mode&ACQ != 0 {
			t.joinVC(o.L)
		}
		if mode&REL != 0 {
			for len(o.L) < len(t.VC) {
				o.L = append(o.L, 0)
			}
			for i, v := range t.VC {
				if v > o.L[i] {
					o.L[i] = v
				}
			}
			t.tick()
		}
	}
}

// Touch folds a further object into the running thread's operation (multi-object
// operations such as select).
func Touch(o *Obj, mode Mode) {
	if X == nil || o == nil {
		return
	}
	X.applyOp(X.cur, "", o, mode)
}

func (x *Exec) logStep(t *Thread, desc string, o *Obj) {
	if o != nil {
		x.Log = append(x.Log, fmt.Sprintf("[%d:%s] %s #%d%s  t=%dms", t.ID, t.Name, desc, o.ID, o.Name, x.Now/1e6))
	} else {
		x.Log = append(x.Log, fmt.Sprintf("[%d:%s] %s  t=%dms", t.ID, t.Name, desc, x.Now/1e6))
	}
}

func (x *Exec) isEnabled(t *Thread) bool {
	if t.done {
		return false
	}
	if t.ready != nil && !t.ready() {
		t.Blocked++
		return false
	}
	return !t.stutter || x.Version != t.stutterV
}

func (x *Exec) enabled() []*Thread {
	var en []*Thread
	if c := x.cur; c != nil && x.isEnabled(c) {
		en = append(en, c)
	}
	for _, t := range x.threads {
		if t != x.cur && x.isEnabled(t) {
			en = append(en, t)
		}
	}
	return en
}

func (x *Exec) stateKey() uint64 {
	h := uint64(x.Now) * 31
	if x.cur != nil {
		h = mix(h, uint64(x.cur.ID)+1)
	}
	// threads in id order (ids are deterministic: spawn order is part of the causal history)
	for _, t := range x.threads {
		if t.done {
			h = mix(h, 0xdead)
		} else {
			w := uint64(0)
			if t.stutter {
				w = 1
			}
			h = mix(h, t.H, uint64(t.wake), w)
		}
	}
	ids := make([]*Obj, 0, len(x.objs))
	for _, o := range x.objs {
		ids = append(ids, o)
	}
	sort.Slice(ids, func(i, j int) bool { return ids[i].ID < ids[j].ID })
	for _, o := range ids {
		h = mix(h, o.H)
	}
	for _, tm := range x.timers {
		if tm.active {
			h = mix(h, uint64(tm.when), uint64(tm.id))
		}
	}
	return h
}

// Run executes body under the scheduler, replaying cfg.Prefix and then taking
// choice 0 at every later point.
func Run(cfg Config, body func()) *Exec {
	if cfg.MaxSteps == 0 {
		cfg.MaxSteps = 20000
	}
	if cfg.Horizon == 0 {
		cfg.Horizon = int64(time.Hour)
	}
	x := &Exec{cfg: cfg, back: make(chan struct{}), closed: map[uintptr]any{}, objs: map[uintptr]*Obj{}}
	if cfg.Trace {
		x.Log = []string{}
	}
	if cfg.Race {
		x.shadow = map[uintptr]*shadow{}
	}
	X = x
	x.clock = &Obj{ID: 0, Name: "clock"}
	main := x.spawn("main", body)
	x.cur = main
	main.gate <- struct{}{}
	<-x.back
	for {
		atomic.AddInt64(&wdSteps, 1)
		en := x.enabled()
		tick := x.hasDeadline()
		if len(en) == 0 {
			if tick {
				x.advanceClock()
				continue
			}
			forced := false
			if x.forced < 50 {
				for _, t := range x.threads {
					if !t.done && t.stutter {
						t.stutter = false
						forced = true
					}
				}
			}
			if forced {
				x.forced++
				if len(x.enabled()) > 0 {
					continue
				}
			}
			if x.forced >= 50 {
				x.Livelock = true
			}
			for _, t := range x.threads {
				if !t.done && !t.Daemon {
					x.Deadlock = true
					x.Stuck = append(x.Stuck, fmt.Sprintf("%s@%s", t.Name, t.desc))
				}
			}
			break
		}
		x.steps++
		if x.steps > cfg.MaxSteps {
			x.Capped = true
			break
		}
		curEn := x.cur != nil && en[0] == x.cur
		n := len(en)
		tickAlt := tick && cfg.EarlyTicks
		if tickAlt {
			n++
		}
		idx := 0
		if n > 1 {
			if cfg.Visited != nil && len(x.Points) >= len(cfg.Prefix) {
				k := x.stateKey()
				rem := int8(cfg.Bound - x.cost)
				if old, ok := cfg.Visited[k]; ok && old >= rem {
					x.Pruned = true
					break
				} else if !ok {
					x.StatesNew++
				}
				cfg.Visited[k] = rem
			}
			var sg uint64
			for _, t := range en {
				sg = mix(sg, uint64(t.ID)+1, shash(t.desc))
			}
			idx = x.choose('s', n, curEn, tickAlt, 0, "", sg)
		}
		if idx == len(en) {
			x.Ticks++
			x.logf("      ~ early clock tick")
			x.advanceClock()
			continue
		}
		t := en[idx]
		if x.Log != nil {
			x.logStep(t, t.desc, t.obj)
		}
		x.cur = t
		if t.StartStep < 0 {
			t.StartStep = x.steps
		}
		t.steps++
		t.gate <- struct{}{}
		<-x.back
	}
	// abort whatever is left
	x.aborting = true
	for _, t := range x.threads {
		for !t.done {
			x.cur = t
			t.gate <- struct{}{}
			<-x.back
		}
	}
	X = nil
	return x
}

// Steps is the number of scheduling steps of the execution.
func (x *Exec) Steps() int { return x.steps }

// Cost is the number of deviations (preemptions, early ticks, costly answers) taken.
func (x *Exec) Cost() int { return x.cost }

// Threads returns the controlled threads (spawn order).
func (x *Exec) Threads() []*Thread { return x.threads }

// Choices returns the choice sequence of the first n points.
func (x *Exec) Choices(n int) []int {
	if n > len(x.Points) {
		n = len(x.Points)
	}
	c := make([]int, n, n+1)
	for i := 0; i < n; i++ {
		c[i] = x.Points[i].Chosen
	}
	return c
}

// Sigs returns the signatures of the first n points.
func (x *Exec) Sigs(n int) []uint64 {
	if n > len(x.Points) {
		n = len(x.Points)
	}
	c := make([]uint64, n)
	for i := 0; i < n; i++ {
		c[i] = x.Points[i].Sig
	}
	return c
}

// Abnormal summarises scheduler verdicts.
func (x *Exec) Abnormal() string {
	var s []string
	if x.Deadlock {
		s = append(s, "deadlock["+strings.Join(x.Stuck, ",")+"]")
	}
	if x.Livelock {
		s = append(s, "livelock")
	}
	if x.Capped {
		s = append(s, "step-cap")
	}
	return strings.Join(s, " ")
}

// ---- virtual time ----

func (x *Exec) nextDeadline() int64 {
	var min int64 = -1
	for _, t := range x.threads {
		if !t.done && t.wake > x.Now && (min < 0 || t.wake < min) {
			min = t.wake
		}
	}
	for _, t := range x.timers {
		if t.active {
			w := t.when
			if w < x.Now {
				w = x.Now
			}
			// the horizon only stops self re-arming timers; sleeping threads always wake up
			if w > x.cfg.Horizon {
				continue
			}
			if min < 0 || w < min {
				min = w
			}
		}
	}
	return min
}

func (x *Exec) hasDeadline() bool {
	return x.nextDeadline() >= 0
}

func (x *Exec) advanceClock() {
	d := x.nextDeadline()
	if d > x.Now {
		x.Now = d
	}
	x.Version++
	x.clock.H = uint64(x.Now)
	x.logf("      ~ clock -> %dms", x.Now/1e6)
	x.fireTimers()
}

// NowNS returns the virtual time.
func NowNS() int64 {
	if X == nil {
		return 0
	}
	Op("time.Now", X.clock, RD, nil)
	return X.Now
}

// Sleep blocks the thread until the virtual clock has advanced by ns.
func Sleep(ns int64) {
	x := X
	if x == nil {
		return
	}
	t := x.cur
	if ns <= 0 {
		Yield("sleep 0")
		return
	}
	t.wake = x.Now + ns
	w := t.wake
	Op("sleep", x.clock, RD, func() bool { return x.Now >= w })
	t.wake = 0
}

type VTimer struct {
	id     int
	when   int64
	active bool
	f      func()
	fired  int
	Obj    *Obj
	name   string
	// Inline timers run f on the scheduler (no goroutine): channel timers (time.NewTimer / After)
	Inline bool
	Period int64 // > 0: re-arms itself (tickers)
}

func NewTimer(d int64, name string, f func()) *VTimer {
	x := X
	x.nobj++
	t := &VTimer{id: len(x.timers) + 1, when: x.Now + d, active: true, f: f, name: name}
	t.Obj = &Obj{ID: x.nobj, Name: "timer", H: uint64(x.nobj)}
	if x.cfg.Race && x.cur != nil {
		// arming a timer happens-before its callback
		t.Obj.L = append([]uint32(nil), x.cur.VC...)
		x.cur.tick()
	}
	x.timers = append(x.timers, t)
	x.Version++
	return t
}
func (t *VTimer) Reset(d int64) bool {
	if X.cfg.Race && X.cur != nil {
		for len(t.Obj.L) < len(X.cur.VC) {
			t.Obj.L = append(t.Obj.L, 0)
		}
		for i, v := range X.cur.VC {
			if v > t.Obj.L[i] {
				t.Obj.L[i] = v
			}
		}
	}
	a := t.active
	t.when, t.active = X.Now+d, true
	X.Version++
	return a
}
func (t *VTimer) Stop() bool { a := t.active; t.active = false; X.Version++; return a }

// Active reports whether the timer is armed.
func (t *VTimer) Active() bool { return t.active }

// fireTimers spawns a controlled thread for every due timer.
func (x *Exec) fireTimers() {
	for _, t := range x.timers {
		if t.active && t.when <= x.Now {
			t.active = false
			t.fired++
			if t.Inline {
				t.f()
				if t.Period > 0 {
					t.when, t.active = x.Now+t.Period, true
				}
				continue
			}
			save := x.cur
			x.cur = nil
			th := x.spawn(fmt.Sprintf("%s#%d.%d", t.name, t.id, t.fired), t.f)
			th.H = mix(t.Obj.H, uint64(t.fired))
			if x.cfg.Race {
				th.joinVC(t.Obj.L)
			}
			x.cur = save
		}
	}
}

// PendingTimers counts armed timers (called by oracles at quiescence).
func (x *Exec) PendingTimers() int {
	n := 0
	for _, t := range x.timers {
		if t.active {
			n++
		}
	}
	return n
}

// ---- native channel support ----

type Case struct {
	Send bool
	Ch   any
}

func R(ch any) Case { return Case{false, ch} }
func S(ch any) Case { return Case{true, ch} }

func chanPtr(ch any) (reflect.Value, uintptr) {
	v := reflect.ValueOf(ch)
	if !v.IsValid() || v.IsNil() {
		return v, 0
	}
	return v, v.Pointer()
}

func isClosed(p uintptr) bool {
	if X == nil {
		return false
	}
	_, cl := X.closed[p]
	return cl
}

func chanReady(c Case) bool {
	v, p := chanPtr(c.Ch)
	if p == 0 {
		return false
	}
	if c.Send {
		return v.Len() < v.Cap() || isClosed(p) // send on closed channel panics (enabled)
	}
	return v.Len() > 0 || isClosed(p)
}

func readyCases(cases []Case) []int {
	var r []int
	for i, c := range cases {
		if chanReady(c) {
			r = append(r, i)
		}
	}
	return r
}

func chanObj(ch any) *Obj {
	if X == nil {
		return nil
	}
	_, p := chanPtr(ch)
	if p == 0 {
		return nil
	}
	if o, ok := X.objs[p]; ok {
		return o
	}
	X.nobj++
	o := &Obj{ID: X.nobj, Name: "chan", keep: ch, H: uint64(X.nobj)}
	X.objs[p] = o
	return o
}

// Select blocks until a case is ready (or returns -1 when hasDefault and none
// is) and returns the index of the case the rewritten code must execute. When
// several cases are ready the scheduler chooses (all choices are explored).
func Select(desc string, hasDefault bool, cases ...Case) int {
	if X == nil {
		r := readyCases(cases)
		if len(r) == 0 {
			if hasDefault {
				return -1
			}
			panic("vsched: select would block in sequential mode: " + desc)
		}
		return r[0]
	}
	var ready func() bool
	if !hasDefault {
		ready = func() bool { return len(readyCases(cases)) > 0 }
	}
	Op("select "+desc, nil, RD, ready)
	for _, c := range cases {
		Touch(chanObj(c.Ch), RD)
	}
	r := readyCases(cases)
	if len(r) == 0 {
		return -1
	}
	k := r[Choose(len(r), "select-case "+desc)]
	X.Version++
	c := cases[k]
	m := RD | WR | ACQ
	if c.Send {
		m = RD | WR | REL | ACQ
	}
	Touch(chanObj(c.Ch), m)
	return k
}

func Recv[T any](desc string, ch <-chan T) T {
	c := R(ch)
	Op("recv "+desc, chanObj(ch), RD|WR|ACQ|REL, func() bool { return chanReady(c) })
	Mutated()
	return <-ch
}

func Recv2[T any](desc string, ch <-chan T) (T, bool) {
	c := R(ch)
	Op("recv "+desc, chanObj(ch), RD|WR|ACQ|REL, func() bool { return chanReady(c) })
	Mutated()
	v, ok := <-ch
	return v, ok
}

func Send[T any](desc string, ch chan<- T, v T) {
	c := S(ch)
	Op("send "+desc, chanObj(ch), RD|WR|ACQ|REL, func() bool { return chanReady(c) })
	Mutated()
	ch <- v
}

func Close[T any](desc string, ch chan<- T) {
	Op("close "+desc, chanObj(ch), WR|REL, nil)
	MarkClosed(ch)
	close(ch)
}

// MarkClosed records that ch was closed (readiness of receives is computed from it).
func MarkClosed(ch any) {
	if X == nil {
		return
	}
	X.Version++
	_, p := chanPtr(ch)
	X.closed[p] = ch
}

func Len(desc string, ch any) int {
	Op("len "+desc, chanObj(ch), RD, nil)
	return reflect.ValueOf(ch).Len() // (any channel direction)
}

// SortedKeys gives a deterministic iteration order for maps.
func SortedKeys[K int | int64 | string, V any](m map[K]V) []K {
	ks := make([]K, 0, len(m))
	for k := range m {
		ks = append(ks, k)
	}
	sort.Slice(ks, func(i, j int) bool { return ks[i] < ks[j] })
	if n := len(ks); n > 1 && n <= 3 && X != nil {
		// explore permutations of small maps: rotate by a free choice, optionally reverse
		r := Choose(n, "map-order-rot")
		ks = append(ks[r:], ks[:r]...)
		if n == 3 && Choose(2, "map-order-rev") == 1 {
			ks[1], ks[2] = ks[2], ks[1]
		}
	}
	return ks
}
