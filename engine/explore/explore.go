//go:build verif

// Package explore drives bounded exhaustive exploration: a stateless DFS over
// the recorded choice points of vsched executions with iterative deviation
// bounding, optional happens-before state caching, process-level sharding,
// replay files, known-finding matching and evidence output. Sequential
// enumerations (operation sequences, input alphabets, fault answers) plug in
// through Scenario.Enum and share the reporting path.
package explore

import (
	"bufio"
	"encoding/json"
	"flag"
	"fmt"
	"hash/fnv"
	"os"
	"os/exec"
	"path/filepath"
	"runtime"
	"sort"
	"strconv"
	"strings"
	"sync"
	"time"

	"github.com/go-netty/go-netty/zz_verif/vsched"
)

// Finding is one oracle failure. Key is the stable signature matched against
// known_findings.json; Msg explains it.
type Finding struct {
	Key     string          `json:"key"`
	Msg     string          `json:"msg"`
	Scen    string          `json:"scenario,omitempty"`
	Choices []int           `json:"choices,omitempty"`
	Case    json.RawMessage `json:"case,omitempty"`
	Cost    int             `json:"cost"`
	Trace   []string        `json:"trace,omitempty"`
}

// Scenario is one closed driver. Exactly one of Body / Enum is set.
type Scenario struct {
	Name string
	// schedule exploration
	Init          func() any                              // allocates the per-execution observation
	Body          func(obs any)                           // runs as the main controlled thread
	Check         func(x *vsched.Exec, obs any) []Finding // terminal oracle (also sees scheduler verdicts)
	Outcome       func(x *vsched.Exec, obs any) string    // terminal observation, for outcome counting
	Bound         int                                     // deviation bound
	Cache         bool                                    // happens-before state caching
	Shards        int                                     // process-level sharding of the DFS
	Cfg           vsched.Config                           // MaxSteps, Horizon, EarlyTicks, Race
	AllowAbnormal bool                                    // deadlock/livelock/cap are judged by Check, not as engine-level violations
	// sequential enumeration
	Enum   func(c *EnumCtx)
	Replay func(c *EnumCtx, desc json.RawMessage) // re-run one enumerated case
}

// Result is what a worker reports for one work item.
type Result struct {
	Scenario   string           `json:"scenario"`
	Shard      int              `json:"shard"`
	Execs      int64            `json:"execs"`
	Steps      int64            `json:"steps"`
	States     int64            `json:"states"`
	Pruned     int64            `json:"pruned"`
	MaxDepth   int              `json:"max_depth"`
	MaxPoints  int              `json:"max_points"`
	Outcomes   map[string]int   `json:"outcomes"`
	Findings   []Finding        `json:"findings"`
	NFindings  int64            `json:"n_findings"`
	BoundDone  int              `json:"bound_done"`
	Bound      int              `json:"bound"`
	TimedOut   bool             `json:"timed_out"`
	StepCapped int64            `json:"step_capped"`
	Samples    []any            `json:"samples"`
	Wall       float64          `json:"wall_s"`
	Cases      int64            `json:"cases"`
	Nontrivial int64            `json:"nontrivial"`
	Extra      map[string]int64 `json:"extra,omitempty"`
	Err        string           `json:"err,omitempty"`
}

func hashStr(s string) string {
	h := fnv.New64a()
	h.Write([]byte(s))
	return strconv.FormatUint(h.Sum64(), 36)
}

// ---------------------------------------------------------------- DFS

type dfs struct {
	s        *Scenario
	res      *Result
	deadline time.Time
	bound    int
	shard    int
	nshards  int
	n2       int
	visited  map[uint64]int8
	terminal map[uint64]struct{}
	byKey    map[string]*Finding
	stop     bool
}

func (d *dfs) run(prefix []int, sigs []uint64, cache bool) (*vsched.Exec, any) {
	cfg := d.s.Cfg
	cfg.Prefix = prefix
	cfg.PrefixSigs = sigs
	cfg.Bound = d.bound
	if cache {
		cfg.Visited = d.visited
	}
	obs := d.s.Init()
	defer func() {
		if r := recover(); r != nil {
			// engine errors (replay divergence, ...) name the scenario and the choice prefix
			fmt.Fprintf(RealStderr, "ENGINE ERROR in scenario %q with choice prefix %v\n", d.s.Name, prefix)
			if os.Getenv("VERIF_DEBUG") != "" {
				tc := cfg
				tc.Trace, tc.PrefixSigs = true, nil
				for k := 0; k < 3; k++ {
					func() {
						defer func() { recover() }()
						if k == 2 && len(prefix) > 0 {
							tc.Prefix = prefix[:len(prefix)-1] // the parent execution
						}
						o2 := d.s.Init()
						x2 := vsched.Run(tc, func() { d.s.Body(o2) })
						fmt.Fprintf(RealStderr, "---- trace of run %d (prefix length %d) ----\n%s\n", k+1, len(tc.Prefix), strings.Join(x2.Log, "\n"))
						for i, p := range x2.Points {
							fmt.Fprintf(RealStderr, "point %d: %c n=%d chosen=%d sig=%x %s\n", i, p.Kind, p.N, p.Chosen, p.Sig, p.Desc)
						}
					}()
				}
			}
			panic(r)
		}
	}()
	x := vsched.Run(cfg, func() { d.s.Body(obs) })
	return x, obs
}

func (d *dfs) judge(x *vsched.Exec, obs any, prefix []int) {
	r := d.res
	r.Execs++
	r.Steps += int64(x.Steps())
	r.States += int64(x.StatesNew)
	if len(x.Points) > r.MaxPoints {
		r.MaxPoints = len(x.Points)
	}
	if x.Pruned {
		r.Pruned++
		return
	}
	if x.Capped {
		r.StepCapped++
	}
	var fs []Finding
	if !d.s.AllowAbnormal {
		if ab := x.Abnormal(); ab != "" {
			fs = append(fs, Finding{Key: "sched/" + strings.SplitN(ab, "[", 2)[0], Msg: "scheduler verdict: " + ab})
		}
		for _, p := range x.Panics {
			fs = append(fs, Finding{Key: "sched/thread-panic", Msg: "controlled thread died with panic: " + p})
		}
	}
	if d.s.Check != nil {
		fs = append(fs, d.s.Check(x, obs)...)
	}
	if d.s.Outcome != nil {
		o := d.s.Outcome(x, obs)
		k := hashStr(o)
		if _, ok := r.Outcomes[k]; !ok && len(r.Samples) < 3 {
			r.Samples = append(r.Samples, map[string]any{"scenario": d.s.Name, "choices": compact(x.Choices(len(x.Points))), "deviations": x.Cost(), "steps": x.Steps(), "outcome": clip(o, 600)})
		}
		r.Outcomes[k]++
		if os.Getenv("VERIF_DEBUG") != "" && r.Outcomes[k] == 1 {
			fmt.Fprintf(RealStderr, "outcome %s [%s] dev=%d: %s\n", k, d.s.Name, x.Cost(), clip(o, 400))
		}
	}
	for _, f := range fs {
		r.NFindings++
		old := d.byKey[f.Key]
		if old == nil || x.Cost() < old.Cost || (x.Cost() == old.Cost && len(x.Points) < len(old.Choices)) {
			f.Scen = d.s.Name
			f.Cost = x.Cost()
			f.Choices = x.Choices(len(x.Points))
			g := f
			d.byKey[f.Key] = &g
		}
	}
}

func clip(s string, n int) string {
	if len(s) > n {
		return s[:n] + "…"
	}
	return s
}

func compact(c []int) string {
	var b strings.Builder
	for i, v := range c {
		if i > 0 {
			b.WriteByte(' ')
		}
		b.WriteString(strconv.Itoa(v))
	}
	return b.String()
}

func (d *dfs) explore(prefix []int, sigs []uint64, depth int) {
	if d.stop {
		return
	}
	if time.Now().After(d.deadline) {
		d.stop = true
		d.res.TimedOut = true
		return
	}
	mine := true
	if d.nshards > 1 {
		if depth < 2 {
			mine = d.shard == 0
		} else if depth == 2 {
			mine = d.n2%d.nshards == d.shard
			d.n2++
			if !mine {
				return
			}
		}
	}
	useCache := d.s.Cache && (d.nshards == 1 || depth >= 2)
	x, obs := d.run(prefix, sigs, useCache)
	if mine {
		d.judge(x, obs, prefix)
	}
	if depth > d.res.MaxDepth {
		d.res.MaxDepth = depth
	}
	cost := 0
	for i := 0; i < len(prefix) && i < len(x.Points); i++ {
		cost += x.Points[i].AltCost(x.Points[i].Chosen)
	}
	for i := len(prefix); i < len(x.Points); i++ {
		p := &x.Points[i]
		for alt := 1; alt < p.N; alt++ {
			if cost+p.AltCost(alt) > d.bound {
				continue
			}
			np := append(x.Choices(i), alt)
			d.explore(np, x.Sigs(i+1), depth+1)
			if d.stop {
				return
			}
		}
		cost += p.AltCost(p.Chosen)
	}
}

// exploreScenario runs iterative deviation bounding for one shard.
func exploreScenario(s *Scenario, shard, nshards int, deadline time.Time, fromBound int) *Result {
	res := &Result{Scenario: s.Name, Shard: shard, Outcomes: map[string]int{}, BoundDone: -1, Bound: s.Bound}
	t0 := time.Now()
	byKey := map[string]*Finding{}
	for b := fromBound; b <= s.Bound; b++ {
		d := &dfs{s: s, res: &Result{Outcomes: map[string]int{}}, deadline: deadline, bound: b, shard: shard, nshards: nshards, byKey: byKey}
		if s.Cache {
			d.visited = map[uint64]int8{}
		}
		d.explore(nil, nil, 0)
		// the last completed pass subsumes the earlier ones: report its counts, sum the work
		res.Steps += d.res.Steps
		res.Pruned += d.res.Pruned
		res.NFindings = d.res.NFindings
		res.StepCapped = d.res.StepCapped
		if d.stop {
			res.TimedOut = true
			res.Execs += d.res.Execs
			break
		}
		res.Execs += d.res.Execs
		res.States = d.res.States
		res.Outcomes = d.res.Outcomes
		res.Samples = d.res.Samples
		res.MaxDepth, res.MaxPoints = d.res.MaxDepth, d.res.MaxPoints
		res.BoundDone = b
	}
	for _, f := range byKey {
		res.Findings = append(res.Findings, *f)
	}
	sort.Slice(res.Findings, func(i, j int) bool { return res.Findings[i].Key < res.Findings[j].Key })
	res.Wall = time.Since(t0).Seconds()
	return res
}

// ReplayOnce re-executes one schedule with tracing and returns findings + trace.
func ReplayOnce(s *Scenario, choices []int) ([]Finding, []string, string) {
	cfg := s.Cfg
	cfg.Prefix = choices
	cfg.Trace = true
	obs := s.Init()
	x := vsched.Run(cfg, func() { s.Body(obs) })
	var fs []Finding
	if !s.AllowAbnormal {
		if ab := x.Abnormal(); ab != "" {
			fs = append(fs, Finding{Key: "sched/" + strings.SplitN(ab, "[", 2)[0], Msg: "scheduler verdict: " + ab})
		}
		for _, p := range x.Panics {
			fs = append(fs, Finding{Key: "sched/thread-panic", Msg: "controlled thread died with panic: " + p})
		}
	}
	if s.Check != nil {
		fs = append(fs, s.Check(x, obs)...)
	}
	out := ""
	if s.Outcome != nil {
		out = s.Outcome(x, obs)
	}
	return fs, x.Log, out
}

// ---------------------------------------------------------------- enumeration

// EnumCtx is handed to sequential enumerations.
type EnumCtx struct {
	res       *Result
	deadline  time.Time
	byKey     map[string]*Finding
	distinct  map[uint64]struct{}
	Shard     int
	NShards   int
	Tier      string
	n         int64
	Replaying bool
	// ReplayChoices is the recorded schedule when a sub-scenario finding is replayed.
	ReplayChoices []int
	Trace         []string
}

// Explore runs a complete (small) schedule exploration of sub inside an
// enumeration: thousands of tiny closed drivers can then share a few worker
// processes. desc (JSON-able) must allow the harness to rebuild sub for replay.
func (c *EnumCtx) Explore(sub *Scenario, desc any) {
	r := exploreScenario(sub, 0, 1, c.deadline, 0)
	if os.Getenv("VERIF_DEBUG") != "" {
		fmt.Fprintf(RealStderr, "sub %-70s execs=%d bound_done=%d timed_out=%v wall=%.1fs\n", sub.Name, r.Execs, r.BoundDone, r.TimedOut, r.Wall)
	}
	c.res.Cases++
	c.res.Execs += r.Execs
	c.res.Steps += r.Steps
	c.res.States += r.States
	c.res.Pruned += r.Pruned
	c.res.StepCapped += r.StepCapped
	if r.TimedOut {
		c.res.TimedOut = true
	}
	for k := range r.Outcomes {
		h := fnv.New64a()
		h.Write([]byte(sub.Name + "/" + k))
		hk := h.Sum64()
		if _, ok := c.distinct[hk]; !ok {
			c.distinct[hk] = struct{}{}
			c.res.Nontrivial++
		}
	}
	if len(c.res.Samples) < 3 && len(r.Samples) > 0 && (c.res.Cases == 1 || c.res.Cases%97 == 0) {
		c.res.Samples = append(c.res.Samples, r.Samples[0])
	}
	for _, f := range r.Findings {
		c.res.NFindings++
		if old, ok := c.byKey[f.Key]; ok && old.Cost <= f.Cost {
			continue
		}
		b, _ := json.Marshal(desc)
		g := f
		g.Scen = c.res.Scenario
		g.Case = b
		g.Msg = "[" + sub.Name + "] " + f.Msg
		c.byKey[f.Key] = &g
	}
}

// ReplaySub re-executes the recorded schedule of a sub-scenario finding.
func (c *EnumCtx) ReplaySub(sub *Scenario) {
	fs, trace, out := ReplayOnce(sub, c.ReplayChoices)
	c.Trace = append(trace, "outcome: "+out)
	for _, f := range fs {
		g := f
		g.Msg = "[" + sub.Name + "] " + f.Msg
		if _, ok := c.byKey[f.Key]; !ok {
			c.byKey[f.Key] = &g
		}
	}
}

// Mine implements round-robin sharding of an enumeration: call once per case.
func (c *EnumCtx) Mine() bool {
	c.n++
	return c.NShards <= 1 || int(c.n%int64(c.NShards)) == c.Shard
}

// Case records one enumerated case; nontrivial says whether it counts as a
// distinct non-trivial case (callers pass a canonical key for deduplication).
func (c *EnumCtx) Case(key string, nontrivial bool, sample func() any) {
	c.res.Cases++
	c.res.Execs++
	if nontrivial {
		h := fnv.New64a()
		h.Write([]byte(key))
		k := h.Sum64()
		if _, ok := c.distinct[k]; !ok {
			c.distinct[k] = struct{}{}
			c.res.Nontrivial++
		}
	}
	if len(c.res.Samples) < 3 && sample != nil && (c.res.Cases == 1 || c.res.Cases == 50 || c.res.Cases == 1000) {
		c.res.Samples = append(c.res.Samples, sample())
	}
}

// Count adds to transitions/states style counters.
func (c *EnumCtx) Count(states, transitions int64) {
	c.res.States += states
	c.res.Steps += transitions
}

// Extra accumulates a named counter reported in evidence.
func (c *EnumCtx) Extra(name string, n int64) {
	if c.res.Extra == nil {
		c.res.Extra = map[string]int64{}
	}
	c.res.Extra[name] += n
}

// Fail records an oracle failure for the case described by desc (JSON-able).
func (c *EnumCtx) Fail(key, msg string, desc any) {
	c.res.NFindings++
	if _, ok := c.byKey[key]; ok {
		return
	}
	b, _ := json.Marshal(desc)
	c.byKey[key] = &Finding{Key: key, Msg: msg, Scen: c.res.Scenario, Case: b}
}

// Expired reports whether the time budget is used up (the enumeration should
// stop and the run is then reported as not exhaustive).
func (c *EnumCtx) Expired() bool {
	if c.res.Cases%64 == 0 && time.Now().After(c.deadline) {
		c.res.TimedOut = true
	}
	return c.res.TimedOut
}

func enumScenario(s *Scenario, tier string, shard, nshards int, deadline time.Time) *Result {
	res := &Result{Scenario: s.Name, Shard: shard, Outcomes: map[string]int{}}
	c := &EnumCtx{res: res, deadline: deadline, byKey: map[string]*Finding{}, distinct: map[uint64]struct{}{}, Shard: shard, NShards: nshards, Tier: tier}
	t0 := time.Now()
	s.Enum(c)
	for _, f := range c.byKey {
		res.Findings = append(res.Findings, *f)
	}
	sort.Slice(res.Findings, func(i, j int) bool { return res.Findings[i].Key < res.Findings[j].Key })
	res.Wall = time.Since(t0).Seconds()
	if !res.TimedOut {
		res.BoundDone = s.Bound
	}
	return res
}

// ---------------------------------------------------------------- main / orchestration

type known struct {
	Property string `json:"property"`
	Key      string `json:"key"`
	Status   string `json:"status"`
	Commit   string `json:"commit,omitempty"`
	What     string `json:"what"`
}

// Spec describes a check.
type Spec struct {
	Property       string
	Rule           string   // how cases are generated and what makes one non-trivial
	Assume         []string // assumptions / trusted base
	Build          func(tier string) []*Scenario
	QuickBudget    time.Duration // internal deadline (exit 0 with exhaustive:false beyond it)
	ThoroughBudget time.Duration
	MinOutcomes    int // vacuity guard: fewer distinct outcomes over all scenarios is an engine error
}

func verifDir() string {
	if d := os.Getenv("VERIF_DIR"); d != "" {
		return d
	}
	return "/verif"
}

// RealStderr is the process's real standard error (workers redirect os.Stderr).
var RealStderr = os.Stderr

// outDir is where evidence and replay files go (VERIF_OUT lets the mutant self-test keep
// its runs away from the committed evidence).
func outDir() string {
	if d := os.Getenv("VERIF_OUT"); d != "" {
		return d
	}
	return verifDir()
}

// Main is the entry point of every check binary.
func Main(spec Spec) {
	tier := flag.String("tier", "quick", "quick|thorough")
	worker := flag.Bool("worker", false, "internal: run one work item and print its Result")
	scen := flag.Int("scenario", -1, "internal")
	shard := flag.Int("shard", 0, "internal")
	nshards := flag.Int("nshards", 1, "internal")
	deadlineUnix := flag.Int64("deadline", 0, "internal")
	replay := flag.String("replay", "", "replay file")
	workers := flag.Int("workers", 0, "parallel worker processes (default: cores)")
	list := flag.Bool("list", false, "list scenarios")
	only := flag.String("only", "", "substring filter on scenario names")
	bound := flag.Int("bound", -1, "override deviation bound")
	level := flag.Int("level", -1, "internal: explore exactly this deviation bound")
	flag.Parse()

	if *replay != "" {
		os.Exit(doReplay(spec, *replay))
	}
	scs := spec.Build(*tier)
	if os.Getenv("VERIF_NOCACHE") != "" {
		// differential validation of the happens-before state cache (./run.sh selfcheck)
		for _, s := range scs {
			s.Cache = false
		}
	}
	if *bound >= 0 {
		for _, s := range scs {
			s.Bound = *bound
		}
	}
	if *list {
		for i, s := range scs {
			fmt.Printf("%d %s bound=%d shards=%d cache=%v\n", i, s.Name, s.Bound, s.Shards, s.Cache)
		}
		return
	}
	if *worker {
		// the library's tail handler prints every unhandled exception to os.Stderr;
		// silence it in workers (engine errors use RealStderr)
		if dn, err := os.OpenFile(os.DevNull, os.O_WRONLY, 0); err == nil {
			os.Stderr = dn
		}
		s := scs[*scen]
		dl := time.Unix(*deadlineUnix, 0)
		var r *Result
		if s.Enum != nil {
			r = enumScenario(s, *tier, *shard, *nshards, dl)
		} else {
			from := 0
			if *level >= 0 {
				s.Bound, from = *level, *level
			}
			r = exploreScenario(s, *shard, *nshards, dl, from)
		}
		w := bufio.NewWriter(os.Stdout)
		json.NewEncoder(w).Encode(r)
		w.Flush()
		return
	}
	os.Exit(orchestrate(spec, scs, *tier, *workers, *only, *bound))
}

type item struct{ scen, shard, nshards int }

func orchestrate(spec Spec, scs []*Scenario, tier string, nworkers int, only string, boundOverride int) int {
	t0 := time.Now()
	budget := spec.QuickBudget
	if tier == "thorough" {
		budget = spec.ThoroughBudget
	}
	if budget == 0 {
		budget = 90 * time.Second
		if tier == "thorough" {
			budget = 15 * time.Minute
		}
	}
	if v, err := strconv.Atoi(os.Getenv("VERIF_BUDGET_S")); err == nil && v > 0 {
		budget = time.Duration(v) * time.Second // (selfcheck: the uncached exploration needs longer)
	}
	deadline := t0.Add(budget)
	if nworkers <= 0 {
		nworkers = runtime.NumCPU()
	}
	var items []item
	for i, s := range scs {
		if only != "" && !strings.Contains(s.Name, only) {
			continue
		}
		n := s.Shards
		if n < 1 {
			n = 1
		}
		for k := 0; k < n; k++ {
			items = append(items, item{i, k, n})
		}
	}
	self, _ := os.Executable()
	// Level-wise iterative deviation bounding: every scenario completes bound L before any scenario
	// starts bound L+1 (a single DFS pass at bound L covers every execution of cost <= L), so an
	// exhausted time budget leaves a uniform completed bound instead of unexplored scenarios.
	maxLevel := 0
	for _, it := range items {
		if s := scs[it.scen]; s.Body != nil && s.Bound > maxLevel {
			maxLevel = s.Bound
		}
	}
	results := make([]*Result, len(items))
	engineErr := ""
	var mu sync.Mutex
	for level := 0; level <= maxLevel; level++ {
		if level > 0 && time.Now().After(deadline) {
			break
		}
		var wg sync.WaitGroup
		sem := make(chan struct{}, nworkers)
		for idx, it := range items {
			s := scs[it.scen]
			if s.Body == nil && level > 0 {
				continue
			}
			if s.Body != nil && s.Bound < level {
				continue
			}
			wg.Add(1)
			sem <- struct{}{}
			go func(idx int, it item, level int) {
				defer wg.Done()
				defer func() { <-sem }()
				args := []string{"-worker", "-tier", tier, "-scenario", strconv.Itoa(it.scen), "-shard", strconv.Itoa(it.shard), "-nshards", strconv.Itoa(it.nshards), "-deadline", strconv.FormatInt(deadline.Unix(), 10), "-bound", strconv.Itoa(boundOverride)}
				if scs[it.scen].Body != nil {
					args = append(args, "-level", strconv.Itoa(level))
				}
				cmd := exec.Command(self, args...)
				cmd.Env = append(os.Environ(), "GOMAXPROCS=2")
				cmd.Stderr = os.Stderr
				out, err := cmd.Output()
				var r Result
				if err == nil {
					err = json.Unmarshal(out, &r)
				}
				mu.Lock()
				defer mu.Unlock()
				if err != nil {
					engineErr = fmt.Sprintf("worker for scenario %q shard %d failed: %v\n%s", scs[it.scen].Name, it.shard, err, clip(string(out), 2000))
					return
				}
				m := results[idx]
				if m == nil {
					r.Bound = scs[it.scen].Bound
					if r.TimedOut && scs[it.scen].Body != nil {
						r.BoundDone = -1
					}
					results[idx] = &r
					return
				}
				// merge a later level into the earlier ones
				m.Execs += r.Execs
				m.Steps += r.Steps
				m.Pruned += r.Pruned
				m.StepCapped += r.StepCapped
				m.NFindings += r.NFindings
				m.Findings = append(m.Findings, r.Findings...)
				m.Wall += r.Wall
				if r.TimedOut {
					m.TimedOut = true
				} else {
					m.BoundDone = r.BoundDone
					m.States = r.States
					m.Outcomes = r.Outcomes
					m.MaxDepth, m.MaxPoints = r.MaxDepth, r.MaxPoints
					if len(r.Samples) > 0 {
						m.Samples = r.Samples
					}
				}
			}(idx, it, level)
		}
		wg.Wait()
		if engineErr != "" {
			break
		}
	}
	if engineErr != "" {
		fmt.Fprintln(os.Stderr, "ENGINE ERROR:", engineErr)
		return 2
	}
	for idx, it := range items {
		if results[idx] == nil { // never started (budget exhausted before its first level)
			results[idx] = &Result{Scenario: scs[it.scen].Name, Shard: it.shard, Outcomes: map[string]int{}, BoundDone: -1, Bound: scs[it.scen].Bound, TimedOut: true}
		}
		if s := scs[it.scen]; s.Body != nil && results[idx].BoundDone < s.Bound {
			results[idx].TimedOut = true // its own bound was not completed
		}
	}
	return report(spec, scs, items, results, tier, time.Since(t0))
}

func loadKnown(prop string) []known {
	b, err := os.ReadFile(filepath.Join(verifDir(), "known_findings.json"))
	if err != nil {
		return nil
	}
	var all []known
	if err := json.Unmarshal(b, &all); err != nil {
		fmt.Fprintln(os.Stderr, "ENGINE ERROR: known_findings.json:", err)
		os.Exit(2)
	}
	var out []known
	for _, k := range all {
		if k.Property == prop && k.Status == "known" {
			out = append(out, k)
		}
	}
	return out
}

func matchKnown(ks []known, key string) *known {
	for i := range ks {
		k := &ks[i]
		if k.Key == key || (strings.HasSuffix(k.Key, "*") && strings.HasPrefix(key, strings.TrimSuffix(k.Key, "*"))) {
			return k
		}
	}
	return nil
}

func report(spec Spec, scs []*Scenario, items []item, results []*Result, tier string, wall time.Duration) int {
	seed, _ := strconv.Atoi(os.Getenv("VERIF_SEED"))
	var execs, steps, states, pruned, cases, nontriv, nfind, capped int64
	outcomes := map[string]int{}
	var samples []any
	exhaustive := true
	minBound := 1 << 30
	type scRow struct {
		Name      string  `json:"name"`
		Execs     int64   `json:"executions"`
		Steps     int64   `json:"steps"`
		States    int64   `json:"states"`
		Outcomes  int     `json:"outcomes"`
		BoundDone int     `json:"bound_completed"`
		Bound     int     `json:"bound"`
		TimedOut  bool    `json:"timed_out,omitempty"`
		Wall      float64 `json:"wall_s"`
	}
	rows := map[int]*scRow{}
	scOutcomes := map[int]map[string]struct{}{}
	scNontrivial := map[int]int64{}
	var findings []Finding
	extra := map[string]int64{}
	for i, r := range results {
		it := items[i]
		row := rows[it.scen]
		if row == nil {
			row = &scRow{Name: scs[it.scen].Name, BoundDone: 1 << 30, Bound: scs[it.scen].Bound}
			rows[it.scen] = row
			scOutcomes[it.scen] = map[string]struct{}{}
		}
		execs += r.Execs
		steps += r.Steps
		states += r.States
		pruned += r.Pruned
		cases += r.Cases
		nontriv += r.Nontrivial
		nfind += r.NFindings
		capped += r.StepCapped
		scNontrivial[it.scen] += r.Nontrivial
		row.Execs += r.Execs
		row.Steps += r.Steps
		row.States += r.States
		row.Wall += r.Wall
		for k, v := range r.Extra {
			extra[k] += v
		}
		if r.BoundDone < row.BoundDone {
			row.BoundDone = r.BoundDone
		}
		if r.TimedOut {
			row.TimedOut = true
			exhaustive = false
		}
		for k, n := range r.Outcomes {
			outcomes[scs[it.scen].Name+"/"+k] += n
			scOutcomes[it.scen][k] = struct{}{}
		}
		if len(samples) < 4 {
			for _, s := range r.Samples {
				if len(samples) < 4 {
					samples = append(samples, s)
				}
			}
		}
		findings = append(findings, r.Findings...)
	}
	var rowList []*scRow
	for i := range scs {
		if row := rows[i]; row != nil {
			row.Outcomes = len(scOutcomes[i]) + int(scNontrivial[i])
			if scs[i].Bound > 0 && row.BoundDone < minBound {
				minBound = row.BoundDone // deviation bounds only exist for schedule explorations
			}
			rowList = append(rowList, row)
		}
	}
	if capped > 0 {
		exhaustive = false
	}
	// classify findings
	ks := loadKnown(spec.Property)
	seenKnown := map[string]bool{}
	var viol []Finding
	byKey := map[string]Finding{}
	for _, f := range findings {
		if old, ok := byKey[f.Key]; !ok || f.Cost < old.Cost {
			byKey[f.Key] = f
		}
	}
	keys := make([]string, 0, len(byKey))
	for k := range byKey {
		keys = append(keys, k)
	}
	sort.Strings(keys)
	for _, k := range keys {
		f := byKey[k]
		if kn := matchKnown(ks, f.Key); kn != nil {
			if !seenKnown[kn.Key] {
				seenKnown[kn.Key] = true
				fmt.Printf("KNOWN-FINDING: property=%s %s [%s] e.g. %s\n", spec.Property, kn.What, kn.Key, clip(f.Msg, 300))
			}
			continue
		}
		viol = append(viol, f)
	}
	// confirm and write replays for violations
	exit := 0
	var violKeys []string
	for _, f := range viol {
		path, ok := confirmAndWrite(spec, scs, f)
		if !ok {
			fmt.Fprintf(os.Stderr, "ENGINE ERROR: violation %s did not replay deterministically\n", f.Key)
			return 2
		}
		fmt.Printf("VIOLATION property=%s replay=%s\n", spec.Property, path)
		fmt.Printf("  key=%s deviations=%d scenario=%s\n  %s\n", f.Key, f.Cost, f.Scen, clip(f.Msg, 1500))
		violKeys = append(violKeys, f.Key)
		exit = 1
	}
	distinct := int64(len(outcomes)) + nontriv
	if spec.MinOutcomes > 0 && int(distinct) < spec.MinOutcomes && exit == 0 {
		fmt.Fprintf(os.Stderr, "ENGINE ERROR: vacuous exploration: only %d distinct outcomes (need >= %d)\n", distinct, spec.MinOutcomes)
		return 2
	}
	if len(samples) == 0 {
		samples = append(samples, "no sample recorded")
	}
	if states == 0 {
		states = distinct
	}
	kf := make([]string, 0, len(seenKnown))
	for k := range seenKnown {
		kf = append(kf, k)
	}
	sort.Strings(kf)
	boundTxt := fmt.Sprint(boundField(minBound))
	ev := map[string]any{
		"property_id": spec.Property,
		"tier":        tier,
		"seed":        seed,
		"level":       "model_checking",
		"coverage": map[string]any{
			"states":                        states,
			"transitions":                   steps,
			"traces_validated_against_impl": execs,
			"evaluations":                   execs,
			"distinct_nontrivial":           distinct,
			"rule":                          spec.Rule,
			"samples":                       samples,
			"exhaustive":                    exhaustive,
			"bound_completed":               boundField(minBound),
			"pruned_by_state_cache":         pruned,
			"step_capped_executions":        capped,
			"scenarios":                     rowList,
			"known_findings_seen":           kf,
			"violation_keys":                violKeys,
			"oracle_failures_total":         nfind,
			"counters":                      extra,
			"explanation":                   "every explored trace is an execution of the instrumented implementation built from the repository's current working tree; states = distinct happens-before states (cached runs) or distinct terminal observations; transitions = scheduling steps / enumerated transitions",
		},
		"assumptions": spec.Assume,
		"wall_s":      wall.Seconds(),
		"violations":  len(viol),
	}
	b, _ := json.MarshalIndent(ev, "", " ")
	evPath := filepath.Join(outDir(), "evidence", spec.Property+".json")
	os.MkdirAll(filepath.Dir(evPath), 0o755)
	if err := os.WriteFile(evPath, b, 0o644); err != nil {
		fmt.Fprintln(os.Stderr, "ENGINE ERROR: cannot write evidence:", err)
		return 2
	}
	{
		oks := make([]string, 0, len(outcomes))
		for k := range outcomes {
			oks = append(oks, k)
		}
		sort.Strings(oks)
		fmt.Printf("outcome-set digest: %s\n", hashStr(strings.Join(oks, ",")))
	}
	fmt.Printf("%s %s: executions=%d steps=%d states=%d outcomes=%d bound_completed=%s exhaustive=%v known=%d violations=%d wall=%.1fs\n",
		spec.Property, tier, execs, steps, states, distinct, boundTxt, exhaustive, len(kf), len(viol), wall.Seconds())
	return exit
}

func boundField(b int) any {
	if b == 1<<30 {
		return "n/a (pure enumeration)"
	}
	return b
}

type replayFile struct {
	Property string          `json:"property"`
	Scenario string          `json:"scenario"`
	Key      string          `json:"key"`
	Msg      string          `json:"msg"`
	Choices  []int           `json:"choices,omitempty"`
	Case     json.RawMessage `json:"case,omitempty"`
	Tier     string          `json:"tier"`
	Trace    []string        `json:"trace,omitempty"`
}

func findScenario(scs []*Scenario, name string) *Scenario {
	for _, s := range scs {
		if s.Name == name {
			return s
		}
	}
	return nil
}

func confirmAndWrite(spec Spec, scs []*Scenario, f Finding) (string, bool) {
	s := findScenario(scs, f.Scen)
	rf := replayFile{Property: spec.Property, Scenario: f.Scen, Key: f.Key, Msg: f.Msg, Choices: f.Choices, Case: f.Case, Tier: os.Getenv("VERIF_TIER_EFFECTIVE")}
	if s != nil && s.Body != nil {
		var first string
		for i := 0; i < 3; i++ {
			fs, trace, out := ReplayOnce(s, f.Choices)
			found := false
			for _, g := range fs {
				if g.Key == f.Key {
					found = true
				}
			}
			var det []string
			for _, l := range trace {
				if !strings.HasPrefix(l, "      | ") { // stack dumps carry addresses
					det = append(det, l)
				}
			}
			sig := out + "\n" + strings.Join(det, "\n")
			if !found || (i > 0 && sig != first) {
				return "", false
			}
			first = sig
			rf.Trace = trace
		}
	}
	if s != nil && s.Body == nil && s.Replay != nil && len(f.Case) > 0 {
		for i := 0; i < 3; i++ {
			res := &Result{Scenario: s.Name, Outcomes: map[string]int{}}
			c := &EnumCtx{res: res, deadline: time.Now().Add(time.Hour), byKey: map[string]*Finding{}, distinct: map[uint64]struct{}{}, Replaying: true, ReplayChoices: f.Choices}
			s.Replay(c, f.Case)
			if _, ok := c.byKey[f.Key]; !ok {
				return "", false
			}
			rf.Trace = c.Trace
		}
	}
	dir := filepath.Join(outDir(), "replays", spec.Property)
	os.MkdirAll(dir, 0o755)
	path := filepath.Join(dir, sanitize(f.Key)+".json")
	b, _ := json.MarshalIndent(rf, "", " ")
	os.WriteFile(path, b, 0o644)
	return path, true
}

func sanitize(s string) string {
	var b strings.Builder
	for _, r := range s {
		if r >= 'a' && r <= 'z' || r >= 'A' && r <= 'Z' || r >= '0' && r <= '9' || r == '-' || r == '.' {
			b.WriteRune(r)
		} else {
			b.WriteByte('_')
		}
	}
	if b.Len() > 120 {
		return b.String()[:120]
	}
	return b.String()
}

func doReplay(spec Spec, path string) int {
	b, err := os.ReadFile(path)
	if err != nil {
		fmt.Fprintln(os.Stderr, "ENGINE ERROR:", err)
		return 2
	}
	var rf replayFile
	if err := json.Unmarshal(b, &rf); err != nil {
		fmt.Fprintln(os.Stderr, "ENGINE ERROR:", err)
		return 2
	}
	for _, tier := range []string{"quick", "thorough"} {
		scs := spec.Build(tier)
		s := findScenario(scs, rf.Scenario)
		if s == nil {
			continue
		}
		if s.Body != nil {
			fs, trace, out := ReplayOnce(s, rf.Choices)
			for _, l := range trace {
				fmt.Println(l)
			}
			fmt.Println("outcome:", out)
			for _, f := range fs {
				fmt.Printf("FINDING key=%s %s\n", f.Key, f.Msg)
			}
			for _, f := range fs {
				if f.Key == rf.Key {
					fmt.Printf("VIOLATION property=%s replay=%s\n", spec.Property, path)
					return 1
				}
			}
			fmt.Println("replay did not reproduce", rf.Key)
			return 0
		}
		if s.Replay != nil {
			res := &Result{Scenario: s.Name, Outcomes: map[string]int{}}
			c := &EnumCtx{res: res, deadline: time.Now().Add(time.Hour), byKey: map[string]*Finding{}, distinct: map[uint64]struct{}{}, Tier: tier, Replaying: true, ReplayChoices: rf.Choices}
			s.Replay(c, rf.Case)
			for _, l := range c.Trace {
				fmt.Println(l)
			}
			for _, f := range c.byKey {
				fmt.Printf("FINDING key=%s %s\n", f.Key, f.Msg)
			}
			if _, ok := c.byKey[rf.Key]; ok {
				fmt.Printf("VIOLATION property=%s replay=%s\n", spec.Property, path)
				return 1
			}
			fmt.Println("replay did not reproduce", rf.Key)
			return 0
		}
	}
	fmt.Fprintln(os.Stderr, "ENGINE ERROR: scenario not found:", rf.Scenario)
	return 2
}
