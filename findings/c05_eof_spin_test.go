package netty_test

// Reproduces the C05 known finding on the real tcp transport: after the peer closed the connection the
// transport's reads return io.EOF (not a net.Error); with an application exception handler that consumes
// exceptions nothing closes the channel and the read loop spins on the dead connection.
// Drop into the repository root: go test -vet=off -count=1 -run TestC05EOFSpin .

import (
	"net"
	"sync/atomic"
	"testing"
	"time"

	netty "github.com/go-netty/go-netty"
	"github.com/go-netty/go-netty/transport/tcp"
)

type consume struct{ n *int64 }

func (c consume) HandleRead(ctx netty.InboundContext, m netty.Message) {
	var b [16]byte
	if _, err := m.(interface{ Read([]byte) (int, error) }).Read(b[:]); err != nil {
		panic(err)
	}
}
func (c consume) HandleException(ctx netty.ExceptionContext, ex netty.Exception) {
	atomic.AddInt64(c.n, 1) // log and continue
}

func TestC05EOFSpin(t *testing.T) {
	var n int64
	var chv atomic.Value
	bs := netty.NewBootstrap(netty.WithChildInitializer(func(ch netty.Channel) {
		chv.Store(ch)
		ch.Pipeline().AddLast(consume{&n})
	}), netty.WithTransport(tcp.New()))
	go bs.Listen("127.0.0.1:19588").Sync()
	time.Sleep(200 * time.Millisecond)
	c, err := net.Dial("tcp", "127.0.0.1:19588")
	if err != nil {
		t.Fatal(err)
	}
	c.Write([]byte("hi"))
	time.Sleep(100 * time.Millisecond)
	c.Close()
	time.Sleep(300 * time.Millisecond)
	a := atomic.LoadInt64(&n)
	time.Sleep(300 * time.Millisecond)
	b := atomic.LoadInt64(&n)
	ch := chv.Load().(netty.Channel)
	t.Logf("exception events after the peer closed: %d, 300ms later %d; IsActive=%v", a, b, ch.IsActive())
	if b > a+10 {
		t.Fatalf("the read loop keeps spinning on a connection the peer has closed")
	}
}
