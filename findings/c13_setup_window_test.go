package netty_test

// Reproduces the C13 known finding on the real tcp transport: a connection that was accepted but whose
// read goroutine has not yet run the holder's HandleActive when Shutdown sweeps the holder is registered
// afterwards and - if a handler blocks in HandleActive waiting for the peer - stays open until the peer acts.
// Drop into the repository root: go test -vet=off -count=1 -run TestC13SetupWindow .

import (
	"net"
	"sync/atomic"
	"testing"
	"time"

	netty "github.com/go-netty/go-netty"
	"github.com/go-netty/go-netty/transport/tcp"
)

type slowExecutor struct{ d time.Duration }

func (s slowExecutor) Exec(a netty.Action) { go func() { time.Sleep(s.d); a() }() }

type greeting struct{ inactive *int32 }

func (g greeting) HandleActive(ctx netty.ActiveContext) {
	var b [1]byte
	ctx.Channel().Transport().Read(b[:]) // wait for the peer's first byte
	ctx.HandleActive()
}
func (g greeting) HandleInactive(ctx netty.InactiveContext, ex netty.Exception) {
	atomic.AddInt32(g.inactive, 1)
	ctx.HandleInactive(ex)
}

func TestC13SetupWindow(t *testing.T) {
	var inactive int32
	bs := netty.NewBootstrap(
		netty.WithExecutor(slowExecutor{300 * time.Millisecond}),
		netty.WithChildInitializer(func(ch netty.Channel) { ch.Pipeline().AddLast(greeting{&inactive}) }),
		netty.WithTransport(tcp.New()),
	)
	bs.Listen("127.0.0.1:19589").Async(func(error) {})
	time.Sleep(600 * time.Millisecond) // accept loop is running
	c, err := net.Dial("tcp", "127.0.0.1:19589")
	if err != nil {
		t.Fatal(err)
	}
	defer c.Close()
	time.Sleep(100 * time.Millisecond) // accepted; its read goroutine starts 300ms after the accept
	bs.Shutdown()
	c.SetReadDeadline(time.Now().Add(2 * time.Second))
	var b [1]byte
	_, err = c.Read(b[:])
	if ne, ok := err.(net.Error); ok && ne.Timeout() {
		t.Fatalf("2s after Shutdown returned the accepted connection is still open (inactive delivered %d times)", atomic.LoadInt32(&inactive))
	}
	t.Logf("connection ended with %v, inactive=%d", err, atomic.LoadInt32(&inactive))
}
