//go:build verif

// C06: graceful close delivers every payload accepted before Close.
package main

import (
	"context"
	"errors"
	"fmt"
	"io"
	"net"
	"strings"
	"time"

	netty "github.com/go-netty/go-netty"
	"github.com/go-netty/go-netty/zz_verif/explore"
	"github.com/go-netty/go-netty/zz_verif/hlib"
	"github.com/go-netty/go-netty/zz_verif/mock"
	"github.com/go-netty/go-netty/zz_verif/vcontext"
	"github.com/go-netty/go-netty/zz_verif/vsched"
)

type obs struct {
	env *hlib.Env
	ws  []*hlib.Writer
}

// closeOnRead closes the channel from inside an inbound handler (read-loop goroutine).
type closeOnRead struct {
	hlib.Reader
	err error
}

var errBye = errors.New("bye")

// closeArg: the error the closer passes to Close. Graceful close does not depend on it: closing with
// an error that looks like a lost connection (as a handler forwarding a read failure or an upstream
// failure does) must still deliver what was accepted over the healthy transport.
func closeArg(closer string) error {
	switch {
	case strings.HasSuffix(closer, "(net-error)"):
		return &net.OpError{Op: "read", Net: "upstream", Err: errors.New("connection reset by peer")}
	case strings.HasSuffix(closer, "(wrapped-EOF)"):
		return fmt.Errorf("peer went away: %w", io.EOF)
	case strings.HasSuffix(closer, "(nil)"):
		return nil
	}
	return errBye
}

func (c *closeOnRead) HandleRead(ctx netty.InboundContext, msg netty.Message) {
	c.Reader.HandleRead(ctx, msg)
	ctx.Close(c.err)
}
func (c *closeOnRead) HandleException(ctx netty.ExceptionContext, ex netty.Exception) {
	// swallow: reads failing after the close must not change who closes
}

type layout struct {
	name string
	ws   [][]hlib.EP // per writer: entry points of its calls
}

func scenario(cfg hlib.ChanCfg, lay layout, closer string, bound int) *explore.Scenario {
	return scenarioStall(cfg, lay, closer, bound, 0)
}

// scenarioStall: with stall > 0 the sender is stuck inside the transport (its Writev
// does not return) until an environment goroutine releases it after `stall` of
// virtual time - within the documented grace period of bounded-wait channels.
func scenarioStall(cfg hlib.ChanCfg, lay layout, closer string, bound int, stall time.Duration) *explore.Scenario {
	return scenarioFull(cfg, hlib.Wrap{}, lay, closer, bound, stall)
}

// scenarioFull: with a non-zero wrap the channel runs over one of the library's buffering transport
// wrappers and the mock plays the raw connection (what reaches it is on the wire). The write-only
// wrapper's Close does not flush: anything the channel left in its buffer is lost.
func scenarioFull(cfg hlib.ChanCfg, wrap hlib.Wrap, lay layout, closer string, bound int, stall time.Duration) *explore.Scenario {
	name := fmt.Sprintf("%s/%s/close=%s", cfg, lay.name, closer)
	if wrap != (hlib.Wrap{}) {
		name = fmt.Sprintf("%s+%s/%s/close=%s", cfg, wrap, lay.name, closer)
	}
	if stall > 0 {
		name += fmt.Sprintf("/stall=%v", stall)
	}
	return &explore.Scenario{
		Name:  name,
		Bound: bound,
		Cfg:   vsched.Config{MaxSteps: 5000, EarlyTicks: true},
		Init:  func() any { return &obs{} },
		Body: func(v any) {
			o := v.(*obs)
			var cancelParent func()
			switch {
			case strings.HasPrefix(closer, "handler"):
				o.env = hlib.NewEnvWrap(cfg, wrap, nil, &closeOnRead{err: closeArg(closer)})
			case closer == "user-after-parent-cancel":
				// the channel's parent context (e.g. the bootstrap's) is cancelled first, as Shutdown does
				var parent context.Context
				parent, cancelParent = vcontext.WithCancel(context.Background())
				o.env = hlib.NewEnvWrap(cfg, wrap, parent)
			default:
				o.env = hlib.NewEnvWrap(cfg, wrap, nil)
			}
			if stall > 0 {
				o.env.T.Stalled = true
				vsched.Go("peer", func() {
					vsched.Sleep(int64(stall))
					o.env.T.Release()
				})
			}
			id := 1
			var ths []*vsched.Thread
			for i, eps := range lay.ws {
				w := &hlib.Writer{Name: fmt.Sprintf("w%d", i+1)}
				for _, ep := range eps {
					w.Calls = append(w.Calls, hlib.NewCall(id, ep, 3))
					id++
				}
				o.ws = append(o.ws, w)
			}
			if len(o.ws) == 1 {
				o.ws[0].Run(o.env.Ch, nil) // single writer: the closing goroutine itself
			} else {
				for _, w := range o.ws {
					w := w
					ths = append(ths, vsched.Go(w.Name, func() { w.Run(o.env.Ch, nil) }))
				}
				for _, t := range ths {
					vsched.Join(t)
				}
			}
			o.env.T.Mark("CLOSE-BEGIN")
			if strings.HasPrefix(closer, "handler") {
				o.env.T.Feed([]byte("x"))
			} else {
				if cancelParent != nil {
					cancelParent()
				}
				o.env.Ch.Close(closeArg(closer))
			}
		},
		Outcome: func(x *vsched.Exec, v any) string {
			o := v.(*obs)
			return o.env.T.LogString() + " | " + hlib.Describe(o.ws)
		},
		Check: func(x *vsched.Exec, v any) []explore.Finding {
			o := v.(*obs)
			t := o.env.T
			var fs []explore.Finding
			ci := hlib.FirstClose(t)
			if ci < 0 {
				return []explore.Finding{{Key: "never-closed", Msg: "Close was requested but the transport was never closed: " + t.LogString()}}
			}
			// bounded-wait channels: a sender stalled beyond the grace period is outside the contract
			var begin int64 = -1
			for _, e := range t.Log {
				if e.Kind == 'M' && e.Note == "CLOSE-BEGIN" {
					begin = e.Now
				}
			}
			if !cfg.Until && begin >= 0 && t.Log[ci].Now-begin >= int64(time.Second) {
				return nil
			}
			calls := hlib.CallMap(o.ws)
			seq, perr := hlib.ParseWire(hlib.WireUpTo(t, ci), calls)
			if perr != "" {
				fs = append(fs, explore.Finding{Key: "garbled-wire", Msg: perr + ": " + t.LogString()})
			}
			seen := map[int]int{}
			for _, id := range seq {
				seen[id]++
			}
			for _, c := range hlib.SortedCalls(calls) {
				id := c.ID
				if c.OK() && seen[id] == 0 {
					fs = append(fs, explore.Finding{Key: "lost-before-close", Msg: fmt.Sprintf("payload #%d was accepted before Close but not handed to the transport before it was closed; log: %s | %s", id, t.LogString(), hlib.Describe(o.ws))})
					break
				}
			}
			// flushed before close
			lastW, lastF := -1, -1
			for i := 0; i < ci; i++ {
				switch e := t.Log[i]; {
				case (e.Kind == 'W' || e.Kind == 'V') && !e.Failed:
					lastW = i
				case e.Kind == 'F' && !e.Failed:
					lastF = i
				}
			}
			if lastW >= 0 && lastF < lastW {
				fs = append(fs, explore.Finding{Key: "unflushed-at-close", Msg: "transport closed with written but unflushed payloads: " + t.LogString()})
			}
			for i := ci + 1; i < len(t.Log); i++ {
				// a write attempt after Close is a batch cut off by the close. (A lone Flush of an
				// empty batch by a sender that lost the race is harmless and not judged.)
				if k := t.Log[i].Kind; k == 'W' || k == 'V' {
					fs = append(fs, explore.Finding{Key: "sender-active-after-close", Msg: "the transport was closed while the sender was in the middle of a batch (write attempted after Close): " + t.LogString()})
					break
				}
			}
			return fs
		},
	}
}

func build(tier string) []*explore.Scenario {
	W1, WV := hlib.Write1, hlib.Writev
	lays := []layout{
		{"1w:W1,W1", [][]hlib.EP{{W1, W1}}},
		{"1w:WV,W1,WV", [][]hlib.EP{{WV, W1, WV}}},
		{"2w:W1|WV", [][]hlib.EP{{W1}, {WV}}},
	}
	bound := 4
	qs := []int{1, 2, 3}
	if tier == "thorough" {
		bound = 6
		lays = append(lays, layout{"2w:W1,WV|WV", [][]hlib.EP{{W1, WV}, {WV}}}, layout{"1w:CW1,CWV", [][]hlib.EP{{hlib.CtxWrite1, hlib.CtxWritev}}})
		qs = []int{1, 2, 3, 4}
	}
	var scs []*explore.Scenario
	for _, until := range []bool{true, false} {
		for _, q := range qs {
			for _, lay := range lays {
				closers := []string{"user", "handler"}
				if len(lay.ws) == 1 && q <= 2 {
					closers = append(closers, "user-after-parent-cancel")
				}
				for _, closer := range closers {
					s := scenario(hlib.ChanCfg{Q: q, Until: until}, lay, closer, bound)
					if closer != "user" {
						s.Bound = bound - 1 // the decisive window sits between the sender and the closing goroutine, whoever that is
					}
					s.Cache = true
					scs = append(scs, s)
				}
			}
		}
	}
	// close reasons that look like a lost connection (or none at all) over a healthy transport
	for _, cfg := range []hlib.ChanCfg{{Q: 2, Until: true}, {Q: 2, Until: false}} {
		for _, closer := range []string{"user(net-error)", "user(wrapped-EOF)", "user(nil)", "handler(wrapped-EOF)", "handler(net-error)"} {
			s := scenario(cfg, lays[1], closer, bound-1)
			s.Cache = true
			scs = append(scs, s)
		}
	}
	// over the library's buffering wrappers
	for _, cfg := range []hlib.ChanCfg{{Q: 2, Until: true}, {Q: 3, Until: false}, {Q: 0}} {
		for _, wrap := range []hlib.Wrap{{0, 8}, {16, 16}} {
			for _, closer := range []string{"user", "handler"} {
				s := scenarioFull(cfg, wrap, lays[1], closer, bound-1, 0)
				s.Cache = true
				scs = append(scs, s)
			}
		}
	}
	// larger queues: a burst of q+2 writes, then Close
	for _, q := range []int{5, 8} {
		var eps []hlib.EP
		for i := 0; i < q+2; i++ {
			eps = append(eps, []hlib.EP{hlib.Write1, hlib.Writev}[i%2])
		}
		for _, until := range []bool{true, false} {
			s := scenario(hlib.ChanCfg{Q: q, Until: until}, layout{fmt.Sprintf("1w:burst(%d)", q+2), [][]hlib.EP{eps}}, "user", 2)
			s.Cache = true
			scs = append(scs, s)
		}
	}
	// sender stalled inside the transport for less than the grace period
	for _, until := range []bool{false, true} {
		for _, q := range []int{1, 2} {
			for _, st := range []time.Duration{400 * time.Millisecond, 900 * time.Millisecond} {
				lay := layout{"1w:W1", [][]hlib.EP{{hlib.Write1}}}
				if q == 2 {
					lay = layout{"1w:W1,WV", [][]hlib.EP{{hlib.Write1, hlib.Writev}}}
				}
				s := scenarioStall(hlib.ChanCfg{Q: q, Until: until}, lay, "user", 2, st)
				s.Cache = true
				scs = append(scs, s)
			}
		}
	}
	return scs
}

func main() {
	explore.Main(explore.Spec{
		Property:    "C06",
		Rule:        "all interleavings (deviation bound = preemptions + early clock ticks) of writers joined before Close, the background sender(s) and the closing goroutine, per queue size / wait mode / writer layout / closer; distinct = distinct (transport log, call results) observations",
		Assume:      []string{"mock transport never stalls (bounded-wait executions where Close polled for >= 1s of virtual time are out of contract)", "sequentially consistent interleavings at synchronisation granularity"},
		Build:       build,
		MinOutcomes: 2,
	})
	_ = mock.Payload
}
