//go:build verif

// C12: no data races in the concurrently usable API (happens-before race monitor on a
// race-mode build: every field access of the library's structs is instrumented).
package main

import (
	"context"
	"encoding/binary"
	"encoding/json"
	"errors"
	"fmt"
	"io"
	"sort"
	"strings"
	"time"

	netty "github.com/go-netty/go-netty"
	"github.com/go-netty/go-netty/codec/format"
	"github.com/go-netty/go-netty/codec/frame"
	"github.com/go-netty/go-netty/transport"
	"github.com/go-netty/go-netty/transport/tcp"
	"github.com/go-netty/go-netty/utils/pool/pbuffer"
	"github.com/go-netty/go-netty/utils/pool/pbytes"
	"github.com/go-netty/go-netty/zz_verif/explore"
	"github.com/go-netty/go-netty/zz_verif/hlib"
	"github.com/go-netty/go-netty/zz_verif/mock"
	"github.com/go-netty/go-netty/zz_verif/vsched"
)

var errClose = errors.New("closed by a user goroutine")

// raceKey: location + the two functions involved (order independent, line independent).
func raceKey(r vsched.Race) string {
	fn := func(s string) string {
		// "<kind> <loc>|<func>|<pos> by <thread>"
		parts := strings.Split(s, "|")
		if len(parts) >= 2 {
			return parts[1]
		}
		return s
	}
	a, b := fn(r.First), fn(r.Later)
	if a > b {
		a, b = b, a
	}
	// the library's buffering wrapper flushes its bufio.Writer inside Close: accesses made by the goroutine
	// that runs Channel.Close are keyed separately (they are the wrapper-level face of the recorded
	// transport.Close-vs-write finding; races between writers / flushes / reads are not)
	if strings.Contains(r.Loc, "bufio") && (strings.HasSuffix(r.First, ":Close") || strings.HasSuffix(r.Later, ":Close")) {
		return fmt.Sprintf("race/transport.Close on the buffering wrapper/%s/%s~%s", r.Loc, a, b)
	}
	return fmt.Sprintf("race/%s/%s~%s", r.Loc, a, b)
}

func raceFindings(x *vsched.Exec) []explore.Finding {
	seen := map[string]bool{}
	var fs []explore.Finding
	for _, r := range x.Races {
		k := raceKey(r)
		if seen[k] {
			continue
		}
		seen[k] = true
		fs = append(fs, explore.Finding{Key: k, Msg: r.String()})
	}
	sort.Slice(fs, func(i, j int) bool { return fs[i].Key < fs[j].Key })
	return fs
}

type sinkH struct{}

func (sinkH) HandleRead(ctx netty.InboundContext, m netty.Message) {
	var b [16]byte
	if _, err := m.(io.Reader).Read(b[:]); err != nil {
		panic(err)
	}
}
func (sinkH) HandleException(ctx netty.ExceptionContext, ex netty.Exception) { ctx.Close(ex) }
func (sinkH) HandleEvent(ctx netty.EventContext, ev netty.Event)             {}

// ---------------------------------------------------------------- channel operations

var opNames = []string{"Write1", "Writev", "CtxWrite1", "CtxWritev", "ReadFrom", "Channel.Write", "Trigger", "Close", "IsActive", "Context", "Writer.Write"}

func doOp(ch netty.Channel, op string, id int) {
	p := mock.Payload(id, 3)
	switch op {
	case "Write1":
		ch.Write1(p)
	case "Writev":
		ch.Writev(hlib.Split(p))
	case "CtxWrite1":
		ch.CtxWrite1(context.Background(), p)
	case "CtxWritev":
		ch.CtxWritev(context.Background(), hlib.Split(p))
	case "ReadFrom":
		ch.ReadFrom(strings.NewReader(string(p)))
	case "Channel.Write":
		ch.Write(p)
	case "Trigger":
		ch.Trigger(struct{}{})
	case "Close":
		ch.Close(errClose)
	case "IsActive":
		ch.IsActive()
	case "Context":
		_ = ch.Context().Err()
	case "Writer.Write":
		ch.Writer().Write(p)
	}
}

type ccase struct {
	Cfg    hlib.ChanCfg `json:"cfg"`
	Ops    []string     `json:"ops"`
	Unsafe bool         `json:"unsafe_transport"` // transport write side is plain memory (write-buffered wrapper)
	Wrap   hlib.Wrap    `json:"wrap"`             // the library's real buffering wrapper between channel and mock connection
}

func chanScenario(cc ccase, bound int) *explore.Scenario {
	name := fmt.Sprintf("channel/%s/%s", cc.Cfg, strings.Join(cc.Ops, "||"))
	if cc.Unsafe {
		name += "/write-buffered-transport"
	}
	if cc.Wrap != (hlib.Wrap{}) {
		name += "/" + cc.Wrap.String()
	}
	return &explore.Scenario{
		Name:          name,
		Bound:         bound,
		Cache:         true, // equal happens-before states carry equal vector clocks
		AllowAbnormal: false,
		Cfg:           vsched.Config{MaxSteps: 6000, Race: true},
		Init:          func() any { return &struct{}{} },
		Body: func(v any) {
			e := &hlib.Env{T: mock.NewTransport("t")}
			e.T.UnsafeWriteSide = cc.Unsafe
			e.T.In = [][]byte{[]byte("in")}
			e.PL = netty.NewPipeline()
			e.PL.AddLast(sinkH{})
			var tr transport.Transport = e.T
			if cc.Wrap != (hlib.Wrap{}) {
				e.T.Wrapped = true
				tr = transport.NewTransport(e.T, cc.Wrap.R, cc.Wrap.W)
			}
			e.Ch = cc.Cfg.Factory()(1, context.Background(), e.PL, tr, netty.AsyncExecutor())
			e.PL.ServeChannel(e.Ch)
			var ths []*vsched.Thread
			for i, op := range cc.Ops {
				i, op := i, op
				if op == "PeerSends" {
					// inbound data arrives while the other goroutines write: the read loop is inside the wrapper's Read
					ths = append(ths, vsched.Go(fmt.Sprintf("g%d:%s", i, op), func() { e.T.Feed([]byte("more")) }))
					continue
				}
				ths = append(ths, vsched.Go(fmt.Sprintf("g%d:%s", i, op), func() { doOp(e.Ch, op, i+1) }))
			}
			for _, t := range ths {
				vsched.Join(t)
			}
		},
		Outcome: func(x *vsched.Exec, v any) string { return fmt.Sprint(len(x.Races), x.Steps()) },
		Check:   func(x *vsched.Exec, v any) []explore.Finding { return raceFindings(x) },
	}
}

// ---------------------------------------------------------------- bootstrap / holder / idle / pools

type bcase struct {
	Ops []string `json:"ops"` // Listen+Async | Listener.Close | Shutdown | Connect | Inbound
}

func bootScenario(bc bcase, bound int) *explore.Scenario {
	return &explore.Scenario{
		Name:  "bootstrap/" + strings.Join(bc.Ops, "||"),
		Bound: bound,
		Cache: true,
		Cfg:   vsched.Config{MaxSteps: 8000, Race: true},
		Init:  func() any { return &struct{}{} },
		Body: func(v any) {
			f := &mock.Factory{}
			mk := func(ch netty.Channel) { ch.Pipeline().AddLast(sinkH{}) }
			bs := netty.NewBootstrap(netty.WithTransport(f), netty.WithChildInitializer(mk), netty.WithClientInitializer(mk))
			l := bs.Listen("mock://h:1")
			sharedOpts := make([]transport.Option, 1, 4)
			sharedOpts[0] = transport.WithAttachment("shared")
			var ths []*vsched.Thread
			for i, op := range bc.Ops {
				i, op := i, op
				ths = append(ths, vsched.Go(fmt.Sprintf("g%d:%s", i, op), func() {
					switch op {
					case "Async":
						l.Async(func(error) {})
					case "Listener.Close":
						l.Close()
					case "Shutdown":
						bs.Shutdown()
					case "Connect":
						bs.Connect("mock://c:2")
					case "Connect(shared options)":
						// the usual way to configure several connections alike: one option slice (with spare capacity) reused
						bs.Connect(fmt.Sprintf("mock://c:%d", 2+i), sharedOpts...)
					case "Listen(shared options)":
						bs.Listen(fmt.Sprintf("mock://h3:%d", i), sharedOpts...).Async(func(error) {})
					case "Listen2":
						bs.Listen(fmt.Sprintf("mock://h2:%d", i)).Async(func(error) {})
					}
				}))
			}
			has := func(s string) bool {
				for _, o := range bc.Ops {
					if o == s {
						return true
					}
				}
				return false
			}
			if has("Async") {
				vsched.GoDaemon("peer", func() {
					a := f.WaitAcceptor(0)
					a.Inject("in1")
				})
			}
			for _, t := range ths {
				vsched.Join(t)
			}
			if !has("Shutdown") {
				bs.Shutdown() // let everything terminate
			}
		},
		Outcome: func(x *vsched.Exec, v any) string { return fmt.Sprint(len(x.Races), x.Steps()) },
		Check:   func(x *vsched.Exec, v any) []explore.Finding { return raceFindings(x) },
	}
}

// holder: channels activating / closing concurrently with CloseAll
func holderScenario(bound int) *explore.Scenario {
	return &explore.Scenario{
		Name:   "holder/two channel life cycles || CloseAll",
		Bound:  bound,
		Cache:  true,
		Shards: 4,
		Cfg:    vsched.Config{MaxSteps: 8000, Race: true},
		Init:   func() any { return &struct{}{} },
		Body: func(v any) {
			h := netty.NewChannelHolder(4)
			mkch := func(id int64) func() {
				return func() {
					t := mock.NewTransport(fmt.Sprint("t", id))
					pl := netty.NewPipeline()
					pl.AddLast(h, sinkH{})
					ch := netty.NewChannel()(id, context.Background(), pl, t, netty.AsyncExecutor())
					pl.ServeChannel(ch)
					if id == 1 {
						ch.Close(errClose)
					}
				}
			}
			a := vsched.Go("life1", mkch(1))
			b := vsched.Go("life2", mkch(2))
			c := vsched.Go("closeall", func() { h.CloseAll(errClose) })
			vsched.Join(a)
			vsched.Join(b)
			vsched.Join(c)
			h.CloseAll(errClose)
		},
		Outcome: func(x *vsched.Exec, v any) string { return fmt.Sprint(len(x.Races), x.Steps()) },
		Check:   func(x *vsched.Exec, v any) []explore.Finding { return raceFindings(x) },
	}
}

// idle handlers: timer callback vs read / write / inactive
func idleScenario(kind string, bound int) *explore.Scenario {
	return &explore.Scenario{
		Name:  "idle/" + kind + "-idle timer callback || message || close",
		Bound: bound,
		Cache: true,
		Cfg:   vsched.Config{MaxSteps: 8000, Race: true, Horizon: int64(3 * time.Second), EarlyTicks: true},
		Init:  func() any { return &struct{}{} },
		Body: func(v any) {
			t := mock.NewTransport("t")
			pl := netty.NewPipeline()
			if kind == "read" {
				pl.AddLast(netty.ReadIdleHandler(time.Second), sinkH{})
			} else {
				pl.AddLast(netty.WriteIdleHandler(time.Second), sinkH{})
			}
			ch := netty.NewChannel()(1, context.Background(), pl, t, netty.AsyncExecutor())
			pl.ServeChannel(ch)
			a := vsched.Go("peer", func() {
				vsched.Sleep(int64(time.Second))
				if kind == "read" {
					t.Feed([]byte("x"))
				} else {
					ch.Write([]byte("x"))
				}
			})
			b := vsched.Go("closer", func() {
				vsched.Sleep(int64(2 * time.Second))
				ch.Close(errClose)
			})
			vsched.Join(a)
			vsched.Join(b)
		},
		Outcome: func(x *vsched.Exec, v any) string { return fmt.Sprint(len(x.Races), x.Steps()) },
		Check:   func(x *vsched.Exec, v any) []explore.Finding { return raceFindings(x) },
	}
}

// codecs: one codec instance is shared by every goroutine that writes to the channel
func codecScenario(name string, hs func() []netty.Handler, msg func(i int) any, bound int) *explore.Scenario {
	return &explore.Scenario{
		Name:  "codec/" + name + ": two goroutines Channel.Write through one codec instance",
		Bound: bound,
		Cache: true,
		Cfg:   vsched.Config{MaxSteps: 6000, Race: true},
		Init:  func() any { return &struct{}{} },
		Body: func(v any) {
			t := mock.NewTransport("t")
			pl := netty.NewPipeline()
			pl.AddLast(sinkH{})
			pl.AddLast(hs()...)
			ch := netty.NewChannel()(1, context.Background(), pl, t, netty.AsyncExecutor())
			pl.ServeChannel(ch)
			a := vsched.Go("w1", func() { ch.Write(msg(1)) })
			b := vsched.Go("w2", func() { ch.Write(msg(2)) })
			vsched.Join(a)
			vsched.Join(b)
		},
		Outcome: func(x *vsched.Exec, v any) string { return fmt.Sprint(len(x.Races), x.Steps()) },
		Check:   func(x *vsched.Exec, v any) []explore.Finding { return raceFindings(x) },
	}
}

// tcpOptionsScenario: what every Connect / Listen of the tcp transport does first with the caller's
// options - two goroutines configured alike share one *tcp.Options (no sockets involved).
func tcpOptionsScenario(bound int) *explore.Scenario {
	return &explore.Scenario{
		Name:  "tcp options/two goroutines resolving one shared *tcp.Options",
		Bound: bound,
		Cache: true,
		Cfg:   vsched.Config{MaxSteps: 4000, Race: true},
		Init:  func() any { return &struct{}{} },
		Body: func(v any) {
			shared := &tcp.Options{NoDelay: true, ReadBufferSize: 16} // durations left at zero
			var ths []*vsched.Thread
			for i := 0; i < 2; i++ {
				i := i
				ths = append(ths, vsched.Go(fmt.Sprintf("g%d:resolve", i), func() {
					o, err := transport.ParseOptions(context.Background(), fmt.Sprintf("tcp://h:%d", i+1), tcp.WithOptions(shared))
					if err != nil {
						panic(err)
					}
					t := tcp.FromContext(o.Context, tcp.DefaultOption)
					_, _, _, _ = t.Timeout, t.KeepAlivePeriod, t.KeepAlive, t.ReadBufferSize
				}))
			}
			for _, t := range ths {
				vsched.Join(t)
			}
		},
		Outcome: func(x *vsched.Exec, v any) string { return fmt.Sprint(len(x.Races), x.Steps()) },
		Check:   func(x *vsched.Exec, v any) []explore.Finding { return raceFindings(x) },
	}
}

// drain reads each decoded frame to its end and keeps it.
type drain struct {
	got  *[]string
	excs *[]string
}

func (d drain) HandleRead(ctx netty.InboundContext, m netty.Message) {
	if r, ok := m.(io.Reader); ok {
		b, err := io.ReadAll(r)
		if err != nil {
			panic(err)
		}
		*d.got = append(*d.got, string(b))
	}
}
func (d drain) HandleException(ctx netty.ExceptionContext, ex netty.Exception) {
	*d.excs = append(*d.excs, ex.Error())
	ctx.Close(ex)
}

type sdObs struct {
	got  [2][]string
	excs [2][]string
}

// sharedDecoder: ONE decoder instance (the shipped length-based and delimiter decoders are stateless values
// an application may build once and add to every pipeline) decodes the inbound streams of two channels
// whose frames arrive in fragments (header split across reads).
func sharedDecoder(name string, dec func() netty.Handler, stream []byte, want []string, bound int) *explore.Scenario {
	return sharedDecoder2(name, dec, [2][]byte{stream, stream}, [2][]string{want, want}, bound)
}

// sharedDecoder2: the two channels receive different streams.
func sharedDecoder2(name string, dec func() netty.Handler, streams [2][]byte, wants [2][]string, bound int) *explore.Scenario {
	return &explore.Scenario{
		Name:  "codec/" + name + ": one decoder instance shared by two channels reading concurrently",
		Bound: bound,
		Cache: false, // (happens-before state caching assumes that causally unordered steps commute, which is exactly what unsynchronised shared decoder state would break)
		Cfg:   vsched.Config{MaxSteps: 8000, Race: true},
		Init:  func() any { return &sdObs{} },
		Body: func(v any) {
			o := v.(*sdObs)
			shared := dec()
			var chs []netty.Channel
			for i := 0; i < 2; i++ {
				t := mock.NewTransport(fmt.Sprintf("t%d", i+1))
				stream := streams[i]
				for k := 0; k < len(stream); k += 1 + i { // channel 1 byte-wise, channel 2 in pairs
					e := k + 1 + i
					if e > len(stream) {
						e = len(stream)
					}
					t.In = append(t.In, append([]byte{}, stream[k:e]...))
				}
				pl := netty.NewPipeline()
				pl.AddLast(shared, drain{&o.got[i], &o.excs[i]})
				ch := netty.NewChannel()(int64(i+1), context.Background(), pl, t, netty.AsyncExecutor())
				pl.ServeChannel(ch)
				chs = append(chs, ch)
			}
			vsched.Sleep(int64(time.Second)) // both read loops have consumed their streams and wait for more
			for _, ch := range chs {
				ch.Close(errClose)
			}
		},
		Outcome: func(x *vsched.Exec, v any) string { return fmt.Sprint(len(x.Races), x.Steps()) },
		Check: func(x *vsched.Exec, v any) []explore.Finding {
			o := v.(*sdObs)
			fs := raceFindings(x)
			// unsynchronised shared state inside the decoder that the monitor cannot see (memory handed to
			// std-lib calls) still shows as one channel's frames being disturbed by the other one
			for i := 0; i < 2; i++ {
				want := wants[i]
				if fmt.Sprint(o.got[i]) != fmt.Sprint(want) || len(o.excs[i]) > 0 {
					fs = append(fs, explore.Finding{Key: "shared-decoder-state/" + name, Msg: fmt.Sprintf("channel %d decoded %q (exceptions %q) from a stream that holds %q: the two channels disturb each other through the shared decoder instance", i+1, o.got[i], o.excs[i], want)})
					break
				}
			}
			return fs
		},
	}
}

func poolScenario(bound int) *explore.Scenario {
	return &explore.Scenario{
		Name:  "pools/pbytes and pbuffer Get||Put from two goroutines",
		Bound: bound,
		Cfg:   vsched.Config{MaxSteps: 4000, Race: true},
		Init:  func() any { return &struct{}{} },
		Body: func(v any) {
			w := func() {
				for i := 0; i < 2; i++ {
					b := pbytes.Get(1024)
					s := (*b)[:0]
					pbytes.Put(&s)
					bb := pbuffer.Get(64)
					vsched.ObjW(bb, "bytes.Buffer object|pool user (harness)|harness").WriteString("owner's data")
					pbuffer.Put(bb)
				}
			}
			a := vsched.Go("a", w)
			b := vsched.Go("b", w)
			vsched.Join(a)
			vsched.Join(b)
		},
		Outcome: func(x *vsched.Exec, v any) string { return fmt.Sprint(len(x.Races), x.Steps()) },
		Check:   func(x *vsched.Exec, v any) []explore.Finding { return raceFindings(x) },
	}
}

func main() {
	explore.Main(explore.Spec{
		Property: "C12",
		Rule:     "race-mode build (every field access of the library's own structs and every map operation is instrumented; sync, atomic, channel, context, pool and timer operations create exactly the happens-before edges of the Go memory model; the mock transport creates none): all pairs (and triples with Close) of {Write1, Writev, CtxWrite1, CtxWritev, ReadFrom, Channel.Write, Writer.Write, Trigger, Close, IsActive, Context} on one sync and one aq(2,B) channel with read loop and sender running, with a thread-safe transport and with a transport whose write side is plain memory (the shipped write-buffered wrapper); bootstrap {Async, Listener.Close, Shutdown, Connect, second Listen} pairs and triples; holder life cycles vs CloseAll; idle-handler timer callbacks vs messages and close; pbytes/pbuffer from two goroutines; one shared decoder instance (length-field, varint, delimiter, fixed-length) decoding the fragmented inbound streams of two channels; two goroutines resolving one shared *tcp.Options the way the tcp transport does; all interleavings up to 1 (thorough 2) preemptions; a vector-clock (FastTrack-style) monitor reports conflicting accesses unordered by happens-before in any explored execution. distinct = distinct (race count, steps) observations",
		Assume:   []string{"pipeline mutation while events flow and attachment access are outside the contract (not exercised)", "only sequentially consistent executions are explored; detection is by happens-before, not by adjacency", "vector-clock edges were cross-checked against go test -race on the seeded races"},
		Build: func(tier string) []*explore.Scenario {
			b := 1
			if tier == "thorough" {
				b = 2
			}
			var ccs []ccase
			for _, cfg := range []hlib.ChanCfg{{0, false}, {2, true}} {
				for _, unsafe := range []bool{false, true} {
					for i := 0; i < len(opNames); i++ {
						for j := i; j < len(opNames); j++ {
							ccs = append(ccs, ccase{Cfg: cfg, Ops: []string{opNames[i], opNames[j]}, Unsafe: unsafe})
						}
					}
					for _, tr := range [][]string{{"Write1", "Close", "Writev"}, {"Channel.Write", "Close", "Trigger"}, {"CtxWrite1", "Close", "Close"}, {"ReadFrom", "Write1", "Close"}} {
						ccs = append(ccs, ccase{Cfg: cfg, Ops: tr, Unsafe: unsafe})
					}
				}
			}
			// the real buffering wrappers: inbound data arriving while goroutines write (and close)
			for _, cfg := range []hlib.ChanCfg{{0, false}, {2, true}} {
				for _, w := range []hlib.Wrap{{16, 16}, {0, 16}, {16, 0}} {
					for _, ops := range [][]string{{"PeerSends", "Write1"}, {"PeerSends", "Writev"}, {"PeerSends", "Channel.Write", "Write1"}, {"PeerSends", "Write1", "Close"}} {
						ccs = append(ccs, ccase{Cfg: cfg, Ops: ops, Wrap: w})
					}
				}
			}
			var bcs []bcase
			bops := []string{"Async", "Listener.Close", "Shutdown", "Connect", "Listen2"}
			for i := 0; i < len(bops); i++ {
				for j := i + 1; j < len(bops); j++ {
					bcs = append(bcs, bcase{[]string{bops[i], bops[j]}})
				}
			}
			bcs = append(bcs, bcase{[]string{"Async", "Listener.Close", "Shutdown"}}, bcase{[]string{"Connect", "Connect", "Shutdown"}},
				bcase{[]string{"Connect(shared options)", "Connect(shared options)"}}, bcase{[]string{"Listen(shared options)", "Listen(shared options)"}}, bcase{[]string{"Connect(shared options)", "Listen(shared options)"}})
			if tier == "thorough" {
				bcs = append(bcs, bcase{[]string{"Async", "Shutdown", "Connect"}})
			}
			scs := []*explore.Scenario{{
				Name:   "channel operation pairs and triples",
				Shards: 16,
				Bound:  b,
				Enum: func(c *explore.EnumCtx) {
					for _, cc := range ccs {
						if !c.Mine() || c.Expired() {
							continue
						}
						c.Explore(chanScenario(cc, b), cc)
					}
				},
				Replay: func(c *explore.EnumCtx, desc json.RawMessage) {
					var cc ccase
					json.Unmarshal(desc, &cc)
					c.ReplaySub(chanScenario(cc, b))
				},
			}, {
				Name:   "bootstrap operation pairs and triples",
				Shards: 13,
				Bound:  b,
				Enum: func(c *explore.EnumCtx) {
					for _, bc := range bcs {
						if !c.Mine() || c.Expired() {
							continue
						}
						bb := b
						if len(bc.Ops) >= 3 && bb > 1 {
							bb = 1 // triples: one preemption (many goroutines)
						}
						c.Explore(bootScenario(bc, bb), bc)
					}
				},
				Replay: func(c *explore.EnumCtx, desc json.RawMessage) {
					var bc bcase
					json.Unmarshal(desc, &bc)
					bb := b
					if len(bc.Ops) >= 3 && bb > 1 {
						bb = 1
					}
					c.ReplaySub(bootScenario(bc, bb))
				},
			}, holderScenario(b), tcpOptionsScenario(b + 1), idleScenario("read", b+1), idleScenario("write", b+1), poolScenario(b + 1),
				codecScenario("varint+json", func() []netty.Handler {
					return []netty.Handler{frame.VarintLengthFieldCodec(1 << 16), format.JSONCodec(true, false)}
				}, func(i int) any { return map[string]interface{}{"id": i} }, b+1),
				codecScenario("length-field+text", func() []netty.Handler {
					return []netty.Handler{frame.LengthFieldCodec(binary.BigEndian, 1<<16, 0, 2, 0, 2), format.TextCodec()}
				}, func(i int) any { return strings.Repeat("x", i*3) }, b+1),
				sharedDecoder("length-field", func() netty.Handler { return frame.LengthFieldCodec(binary.BigEndian, 1024, 0, 2, 0, 2) }, []byte{0, 3, 'a', 'b', 'c', 0, 1, 'z'}, []string{"abc", "z"}, b),
				sharedDecoder2("length-field(magic byte + length, header kept in the frame)", func() netty.Handler { return frame.LengthFieldCodec(binary.BigEndian, 1024, 1, 1, 0, 0) },
					[2][]byte{{'A', 3, 'a', 'b', 'c', 'A', 1, 'z'}, {'B', 2, 'r', 's', 'B', 1, 'q'}}, [2][]string{{"A\x03abc", "A\x01z"}, {"B\x02rs", "B\x01q"}}, b),
				sharedDecoder("varint", func() netty.Handler { return frame.VarintLengthFieldCodec(1024) }, []byte{3, 'a', 'b', 'c', 1, 'z'}, []string{"abc", "z"}, b),
				sharedDecoder("delimiter", func() netty.Handler { return frame.DelimiterCodec(1024, "\r\n", true) }, []byte("ab\r\nc\r\n"), []string{"ab", "c"}, b),
				sharedDecoder("fixed-length", func() netty.Handler { return frame.FixedLengthCodec(3) }, []byte("abcxyz"), []string{"abc", "xyz"}, b),
				codecScenario("delimiter+text", func() []netty.Handler {
					return []netty.Handler{frame.DelimiterCodec(1<<16, "\n", true), format.TextCodec()}
				}, func(i int) any { return strings.Repeat("y", i*3) }, b+1),
			}
			return scs
		},
	})
}
