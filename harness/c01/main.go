//go:build verif

// C01: accepted writes reach the transport exactly once, in order, intact.
package main

import (
	"github.com/go-netty/go-netty/zz_verif/explore"
	"github.com/go-netty/go-netty/zz_verif/hlib"
)

func build(tier string) []*explore.Scenario {
	var scs []*explore.Scenario
	cfgs := []hlib.ChanCfg{{0, false}, {1, true}, {1, false}, {2, true}, {2, false}, {3, true}}
	bound := 2
	if tier == "thorough" {
		bound = 3
	}
	for _, cfg := range cfgs {
		for mi, mix := range hlib.Mixes(2, 2) {
			p := hlib.WParams{Cfg: cfg, Writers: mix, Bound: bound, Cache: true}
			if tier == "thorough" && mi == 0 && cfg.Q > 0 && cfg.Q <= 2 && cfg.Until {
				p.Bound, p.Shards = 4, 8 // four preemptions for the first mix on the two smallest blocking queues
			}
			scs = append(scs, hlib.WriteScenario(p, hlib.CheckOrder))
		}
	}
	// the library's own buffering wrappers between the channel and the (mock) connection: a write
	// buffer smaller than two payloads (flushes in the middle of a payload) and the read+write wrapper
	for _, cfg := range []hlib.ChanCfg{{0, false}, {2, true}} {
		for _, wrap := range []hlib.Wrap{{0, 8}, {16, 16}} {
			scs = append(scs, hlib.WriteScenario(hlib.WParams{Cfg: cfg, Wrap: wrap, Writers: hlib.Mixes(2, 2)[1], Bound: bound, Cache: true}, hlib.CheckOrder))
		}
	}
	// contexts that carry a deadline: the synchronous Ctx entry points arm and clear the transport's write
	// deadline (the mock cuts short any write that runs under a deadline armed by another goroutine)
	for _, mix := range [][][]hlib.EP{{{hlib.CtxWrite1, hlib.Write1}, {hlib.CtxWritev, hlib.CtxWrite1}}, {{hlib.Writev, hlib.CtxWritev}, {hlib.CtxWrite1}}} {
		scs = append(scs, hlib.WriteScenario(hlib.WParams{Cfg: hlib.ChanCfg{}, Writers: mix, Deadline: true, Bound: bound, Cache: true, Tag: "deadline-contexts"}, hlib.CheckOrder))
	}
	// three writers, one call each
	b3 := 2
	if tier == "thorough" {
		b3 = 3
	}
	for _, cfg := range []hlib.ChanCfg{{0, false}, {1, true}, {2, true}, {2, false}} {
		for _, mix := range hlib.Mixes(3, 1)[:2] {
			scs = append(scs, hlib.WriteScenario(hlib.WParams{Cfg: cfg, Writers: mix, Bound: b3, Cache: true}, hlib.CheckOrder))
		}
	}
	if tier == "thorough" {
		// three writers with two calls each (sharded)
		for _, cfg := range []hlib.ChanCfg{{1, true}, {2, true}, {2, false}} {
			scs = append(scs, hlib.WriteScenario(hlib.WParams{Cfg: cfg, Writers: hlib.Mixes(3, 2)[1], Bound: 2, Cache: true, Shards: 8, Tag: "3x2"}, hlib.CheckOrder))
		}
	}
	// larger queues (batch capacity q/2+1 > 2): one writer bursting 2q+2 calls, a second writer, one preemption
	for _, q := range []int{5, 8} {
		var burst []hlib.EP
		for i := 0; i < 2*q+2; i++ {
			burst = append(burst, []hlib.EP{hlib.Write1, hlib.Writev, hlib.CtxWrite1, hlib.CtxWritev, hlib.WriterWrite}[i%5])
		}
		for _, until := range []bool{true, false} {
			scs = append(scs, hlib.WriteScenario(hlib.WParams{Cfg: hlib.ChanCfg{Q: q, Until: until}, Writers: [][]hlib.EP{burst, {hlib.Writev, hlib.Write1}}, Bound: 1, Cache: true, Tag: "burst"}, hlib.CheckOrder))
		}
	}
	// size sweep: boundary sizes through every entry point (deviation bound 1)
	sizes := []int{0, 1, 1023, 1024, 1025, 2047, 2048, 2049, 4096, 65535, 65536, 65537, 131072}
	eps := []hlib.EP{hlib.Write1, hlib.Writev, hlib.CtxWrite1, hlib.CtxWritev, hlib.WriterWrite}
	for _, cfg := range []hlib.ChanCfg{{0, false}, {2, true}, {1, false}} {
		for i, sz := range sizes {
			a, b := eps[i%5], eps[(i+2)%5]
			other := sizes[(i+5)%len(sizes)]
			scs = append(scs, hlib.WriteScenario(hlib.WParams{Cfg: cfg, Writers: [][]hlib.EP{{a, b}, {b}}, Sizes: []int{sz, other, sz}, Bound: 1, Tag: "sizes"}, hlib.CheckOrder))
		}
	}
	return scs
}

func main() {
	explore.Main(explore.Spec{
		Property:    "C01",
		Rule:        "all interleavings up to the deviation (preemption) bound of 2-3 writer goroutines x 1-2 calls with the background sender(s) and executor start-up, per channel kind (sync, aq(n,B/N) n=1..3), entry-point mix (each of the 5 low-level entry points in every position) and a boundary size sweep; distinct = distinct (transport log, call results) observations",
		Assume:      []string{"mock transport accepts every write", "sequentially consistent interleavings at synchronisation granularity", "deterministic LIFO sync.Pool (maximal buffer reuse)"},
		Build:       build,
		MinOutcomes: 2,
	})
}
