//go:build verif

// C11: writes on a closed channel fail and transmit nothing.
package main

import (
	"context"
	"errors"
	"fmt"
	"io"

	netty "github.com/go-netty/go-netty"
	"github.com/go-netty/go-netty/zz_verif/explore"
	"github.com/go-netty/go-netty/zz_verif/hlib"
	"github.com/go-netty/go-netty/zz_verif/mock"
	"github.com/go-netty/go-netty/zz_verif/vcontext"
	"github.com/go-netty/go-netty/zz_verif/vsched"
)

var errSentinel = errors.New("sentinel close error")

type closeArg struct {
	name string
	err  error
}

var closeArgs = []closeArg{{"nil", nil}, {"sentinel", errSentinel}, {"wrapped", fmt.Errorf("wrapped: %w", errSentinel)},
	// errors the write paths themselves treat specially: the end-of-input marker of reader-based sends,
	// and the error a cancelled caller context produces
	{"io.EOF", io.EOF}, {"context.Canceled", context.Canceled}}

type obs struct {
	env      *hlib.Env
	calls    []*hlib.Call
	closeEnd int
}

var allEPs = []hlib.EP{hlib.ChWrite, hlib.Write1, hlib.Writev, hlib.CtxWrite1, hlib.CtxWritev, hlib.ReadFrom, hlib.WriterWrite}

func callerCtx(kind string) context.Context {
	switch kind {
	case "live":
		c, _ := vcontext.WithCancel(context.Background())
		return c
	case "cancelled":
		c, cancel := vcontext.WithCancel(context.Background())
		cancel()
		return c
	}
	return context.Background()
}

func judge(o *obs, cfg hlib.ChanCfg, arg closeArg, ctxKind string) []explore.Finding {
	var fs []explore.Finding
	t := o.env.T
	ci := hlib.FirstClose(t)
	for _, c := range o.calls {
		if c.End < 0 || c.Begin <= o.closeEnd || o.closeEnd < 0 {
			continue // not started after Close returned: not judged here
		}
		if c.Err == nil {
			fs = append(fs, explore.Finding{
				Key: fmt.Sprintf("success-after-close/%s/%s/close(%s)", c.EP, kindOf(cfg), arg.name),
				Msg: fmt.Sprintf("%s on %s started after Close(%s) had returned (caller ctx %s) and reported success (n=%d); log: %s", c.EP, cfg, arg.name, ctxKind, c.N, t.LogString()),
			})
		}
	}
	if ci >= 0 {
		for i := ci + 1; i < len(t.Log); i++ {
			if e := t.Log[i]; (e.Kind == 'W' || e.Kind == 'V') && !e.Failed {
				fs = append(fs, explore.Finding{Key: "bytes-after-close", Msg: "bytes reached the transport after it was closed: " + t.LogString()})
			}
		}
	}
	return fs
}

func kindOf(c hlib.ChanCfg) string {
	if c.Q == 0 {
		return "sync"
	}
	if c.Until {
		return "async-blocking"
	}
	return "async-nonblocking"
}

// after: Close completed, then one call of every entry point (sequential; the
// scheduler explores every choice among simultaneously ready select cases and
// every placement of the sender a successful enqueue would start).
func after(cfg hlib.ChanCfg, arg closeArg, ctxKind string, ep hlib.EP) *explore.Scenario {
	return afterVariant(cfg, arg, ctxKind, ep, "")
}

// panicsOnInactive is an application handler whose inactive callback fails.
type panicsOnInactive struct{ hlib.Reader }

func (panicsOnInactive) HandleInactive(ctx netty.InactiveContext, ex netty.Exception) {
	panic(errors.New("inactive handler failure"))
}

// afterVariant: "lax-transport" = the transport itself accepts writes after Close (the channel must refuse
// them); "inactive-handler-panics" = the application's inactive handler panics while Close delivers the event.
func afterVariant(cfg hlib.ChanCfg, arg closeArg, ctxKind string, ep hlib.EP, variant string) *explore.Scenario {
	name := fmt.Sprintf("after/%s/close(%s)/ctx=%s/%s", cfg, arg.name, ctxKind, ep)
	if variant != "" {
		name += "/" + variant
	}
	return &explore.Scenario{
		Name:  name,
		Bound: 2,
		Cfg:   vsched.Config{MaxSteps: 4000},
		Init:  func() any { return &obs{closeEnd: -1} },
		Body: func(v any) {
			o := v.(*obs)
			if variant == "inactive-handler-panics" {
				o.env = hlib.NewEnv(cfg, nil, &panicsOnInactive{})
			} else {
				o.env = hlib.NewEnv(cfg, nil)
			}
			o.env.T.LaxAfterClose = variant == "lax-transport"
			o.env.Ch.Close(arg.err)
			o.closeEnd = hlib.Stamp("close-returned")
			c := hlib.NewCall(1, ep, 5)
			o.calls = append(o.calls, c)
			c.Begin = hlib.Stamp("begin")
			c.N, c.Err = hlib.Do(o.env.Ch, ep, callerCtx(ctxKind), mock.Payload(1, 5))
			c.End = hlib.Stamp("end")
		},
		Outcome: func(x *vsched.Exec, v any) string {
			o := v.(*obs)
			return o.env.T.LogString() + " | " + o.calls[0].String()
		},
		Check: func(x *vsched.Exec, v any) []explore.Finding {
			return judge(v.(*obs), cfg, arg, ctxKind)
		},
	}
}

// overlap: a writer goroutine races with a closing goroutine; only calls that
// began after Close had returned are judged.
func overlap(cfg hlib.ChanCfg, arg closeArg, eps []hlib.EP, bound int) *explore.Scenario {
	return &explore.Scenario{
		Name:  fmt.Sprintf("overlap/%s/close(%s)/%v", cfg, arg.name, eps),
		Bound: bound,
		Cache: true,
		Cfg:   vsched.Config{MaxSteps: 6000},
		Init:  func() any { return &obs{closeEnd: -1} },
		Body: func(v any) {
			o := v.(*obs)
			o.env = hlib.NewEnv(cfg, nil)
			for i, ep := range eps {
				o.calls = append(o.calls, hlib.NewCall(i+1, ep, 4))
			}
			w := vsched.Go("writer", func() {
				for _, c := range o.calls {
					c.Begin = hlib.Stamp("begin")
					c.N, c.Err = hlib.Do(o.env.Ch, c.EP, nil, mock.Payload(c.ID, c.Size))
					c.End = hlib.Stamp("end")
				}
			})
			cl := vsched.Go("closer", func() {
				o.env.Ch.Close(arg.err)
				o.closeEnd = hlib.Stamp("close-returned")
			})
			vsched.Join(w)
			vsched.Join(cl)
		},
		Outcome: func(x *vsched.Exec, v any) string {
			o := v.(*obs)
			s := o.env.T.LogString() + " |"
			for _, c := range o.calls {
				s += " " + c.String()
				if c.Begin > o.closeEnd && o.closeEnd >= 0 {
					s += "(after)"
				}
			}
			return s
		},
		Check: func(x *vsched.Exec, v any) []explore.Finding {
			// Only calls that began after Close had returned are judged. A call issued while Close is
			// still in progress (IsActive() already false) can pass the closed check and then lose its
			// payload - on the pinned tree too (2 preemptions, every queued entry point). That window
			// belongs to the concurrent case which the property's "after Close has returned" /
			// "closed before the call" does not cover under the reading chosen in DESIGN.md §5/C11.
			return judge(v.(*obs), cfg, arg, "background")
		},
	}
}

// straddleReader delivers its first chunk at once and the second only after Close
// has returned (a slow reader): the chunk written after the close must make
// ReadFrom fail instead of reporting success for discarded data.
type straddleReader struct {
	o     *obs
	calls int
}

func (r *straddleReader) Read(p []byte) (int, error) {
	r.calls++
	switch r.calls {
	case 1:
		return copy(p, mock.Payload(1, 4)), nil
	case 2:
		vsched.Op("reader waits for close", nil, vsched.RD, func() bool { return r.o.closeEnd >= 0 })
		return copy(p, mock.Payload(2, 4)), nil
	}
	return 0, io.EOF
}

func straddle(cfg hlib.ChanCfg, arg closeArg, bound int) *explore.Scenario {
	return &explore.Scenario{
		Name:  fmt.Sprintf("readfrom-straddles-close/%s/close(%s)", cfg, arg.name),
		Bound: bound,
		Cache: true,
		Cfg:   vsched.Config{MaxSteps: 6000},
		Init:  func() any { return &obs{closeEnd: -1} },
		Body: func(v any) {
			o := v.(*obs)
			o.env = hlib.NewEnv(cfg, nil)
			c := hlib.NewCall(1, hlib.ReadFrom, 8)
			o.calls = append(o.calls, c)
			w := vsched.Go("writer", func() {
				c.Begin = hlib.Stamp("begin")
				c.N, c.Err = o.env.Ch.ReadFrom(&straddleReader{o: o})
				c.End = hlib.Stamp("end")
			})
			cl := vsched.Go("closer", func() {
				o.env.Ch.Close(arg.err)
				o.closeEnd = hlib.Stamp("close-returned")
			})
			vsched.Join(w)
			vsched.Join(cl)
		},
		Outcome: func(x *vsched.Exec, v any) string {
			o := v.(*obs)
			return o.env.T.LogString() + " | " + o.calls[0].String()
		},
		Check: func(x *vsched.Exec, v any) []explore.Finding {
			o := v.(*obs)
			c := o.calls[0]
			if c.End >= 0 && c.Err == nil {
				return []explore.Finding{{Key: fmt.Sprintf("success-after-close/ReadFrom(chunk after close)/%s/close(%s)", kindOf(cfg), arg.name),
					Msg: fmt.Sprintf("ReadFrom on %s returned (n=%d, nil) although its second chunk was read and submitted after Close(%s) had returned (that chunk is discarded); log: %s", cfg, c.N, arg.name, o.env.T.LogString())}}
			}
			return nil
		},
	}
}

func build(tier string) []*explore.Scenario {
	var scs []*explore.Scenario
	cfgs := []hlib.ChanCfg{{0, false}, {2, true}, {2, false}}
	for _, cfg := range cfgs {
		for _, arg := range closeArgs {
			for _, ck := range []string{"background", "live", "cancelled"} {
				for _, ep := range allEPs {
					scs = append(scs, after(cfg, arg, ck, ep))
				}
			}
		}
	}
	for _, cfg := range cfgs {
		for _, arg := range closeArgs[:2] {
			for _, ep := range allEPs {
				for _, variant := range []string{"lax-transport", "inactive-handler-panics"} {
					scs = append(scs, afterVariant(cfg, arg, "background", ep, variant))
				}
			}
		}
	}
	bound := 2
	if tier == "thorough" {
		bound = 4
		cfgs = append(cfgs, hlib.ChanCfg{1, true}, hlib.ChanCfg{1, false})
	}
	pairs := [][]hlib.EP{{hlib.Write1, hlib.CtxWrite1}, {hlib.Writev, hlib.ChWrite}, {hlib.CtxWritev, hlib.WriterWrite}, {hlib.ReadFrom, hlib.Write1}}
	for _, cfg := range cfgs {
		for _, arg := range closeArgs[:2] {
			for _, eps := range pairs {
				scs = append(scs, overlap(cfg, arg, eps, bound))
			}
		}
	}
	for _, cfg := range cfgs {
		for _, arg := range closeArgs[:2] {
			scs = append(scs, straddle(cfg, arg, bound))
		}
	}
	return scs
}

func main() {
	explore.Main(explore.Spec{
		Property:    "C11",
		Rule:        "(a) Close(arg) completed, then each of the 7 write entry points x {sync, aq(2,B), aq(2,N)} x Close argument {nil, sentinel, wrapped, io.EOF, context.Canceled} x caller context {background, live, cancelled} (also with a transport that itself accepts writes after Close, and with an application inactive handler that panics during Close), exploring every choice among simultaneously ready select cases and every schedule of a sender the call may start; (b) a writer goroutine (2 calls) overlapping a closing goroutine, all interleavings up to the preemption bound, judging only calls that began after Close returned; distinct = distinct (transport log, call result) observations",
		Assume:      []string{"'after Close has returned' is read as: the call began after Close returned (overlapping calls are judged by C01/C06)", "mock transport fails writes after Close like a closed socket"},
		Build:       build,
		MinOutcomes: 2,
	})
}
