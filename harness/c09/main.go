//go:build verif

// C09: a message's bytes are contiguous on the wire under concurrent writers.
package main

import (
	"bytes"
	"encoding/binary"
	"encoding/hex"
	"encoding/json"
	"fmt"
	"io"
	"net/http"
	"strings"

	netty "github.com/go-netty/go-netty"
	"github.com/go-netty/go-netty/codec/format"
	"github.com/go-netty/go-netty/codec/frame"
	"github.com/go-netty/go-netty/codec/xhttp"
	"github.com/go-netty/go-netty/zz_verif/explore"
	"github.com/go-netty/go-netty/zz_verif/hlib"
	"github.com/go-netty/go-netty/zz_verif/mock"
	"github.com/go-netty/go-netty/zz_verif/vsched"
)

// ---- carriers: what reaches the head of the pipeline ----

type multiWriterTo struct {
	parts [][]byte
}

func (m *multiWriterTo) WriteTo(w io.Writer) (int64, error) {
	var n int64
	for _, p := range m.parts {
		k, err := w.Write(p)
		n += int64(k)
		if err != nil {
			return n, err
		}
	}
	return n, nil
}

type plainReader struct {
	data []byte
	frag int // max bytes per Read (0 = unlimited)
}

func (r *plainReader) Read(p []byte) (int, error) {
	if len(r.data) == 0 {
		return 0, io.EOF
	}
	n := len(p)
	if r.frag > 0 && n > r.frag {
		n = r.frag
	}
	n = copy(p[:n], r.data)
	r.data = r.data[n:]
	return n, nil
}

type carrier struct {
	name  string
	multi bool // produces more than one low-level write for one message (by construction)
	mk    func(body []byte) any
}

var carriers = map[string]carrier{
	"[]byte":        {"[]byte", false, func(b []byte) any { return b }},
	"[][]byte":      {"[][]byte", false, func(b []byte) any { return hlib.Split(b) }},
	"*bytes.Buffer": {"*bytes.Buffer", false, func(b []byte) any { return bytes.NewBuffer(b) }},
	"*bytes.Reader": {"*bytes.Reader", false, func(b []byte) any { return bytes.NewReader(b) }}, // WriterTo, one Write
	"WriterTo/1":    {"WriterTo/1", false, func(b []byte) any { return &multiWriterTo{[][]byte{b}} }},
	"WriterTo/2":    {"WriterTo/2", true, func(b []byte) any { return &multiWriterTo{hlib.Split(b)} }},
	"Reader":        {"Reader", false, func(b []byte) any { return &plainReader{data: b} }}, // one chunk when len <= 1024
	"Reader/frag":   {"Reader/frag", true, func(b []byte) any { return &plainReader{data: b, frag: (len(b) + 1) / 2} }},
	"string":        {"string", false, func(b []byte) any { return string(b) }}, // only with the text codec
	// only with the json pipeline: b is the JSON document, the message is the decoded object
	"json-object": {"json-object", false, func(b []byte) any {
		var o map[string]interface{}
		json.Unmarshal(b, &o)
		return o
	}},
	"*strings.Reader": {"*strings.Reader", false, func(b []byte) any { return strings.NewReader(string(b)) }},
	// only with the http-client pipeline: a body-less request carrying b in a header (well below net/http's 4 KiB write buffer)
	"*http.Request": {"*http.Request", false, func(b []byte) any { return httpReq(b) }},
}

func httpReq(b []byte) *http.Request {
	r, err := http.NewRequest("GET", "http://example.test/m", nil)
	if err != nil {
		panic(err)
	}
	r.Header.Set("X-Body", hex.EncodeToString(b))
	return r
}

// ---- pipelines ----

type pipe struct {
	name     string
	handlers func() []netty.Handler
	frame    func(body []byte) []byte
}

var pipes = map[string]pipe{
	"none": {"none", func() []netty.Handler { return nil }, func(b []byte) []byte { return b }},
	"delimiter+text": {"delimiter+text", func() []netty.Handler {
		return []netty.Handler{frame.DelimiterCodec(4096, "\n", true), format.TextCodec()}
	}, func(b []byte) []byte { return append(append([]byte{}, b...), '\n') }},
	"prepender2": {"prepender2", func() []netty.Handler {
		return []netty.Handler{frame.LengthFieldPrepender(binary.BigEndian, 2, 0, false)}
	}, func(b []byte) []byte {
		h := make([]byte, 2)
		binary.BigEndian.PutUint16(h, uint16(len(b)))
		return append(h, b...)
	}},
	"text": {"text", func() []netty.Handler {
		return []netty.Handler{format.TextCodec()}
	}, func(b []byte) []byte { return b }},
	"varint+json": {"varint+json", func() []netty.Handler {
		return []netty.Handler{frame.VarintLengthFieldCodec(1 << 20), format.JSONCodec(false, false)}
	}, func(b []byte) []byte {
		j, _ := json.Marshal(map[string]interface{}{"id": int(b[0]), "v": hex.EncodeToString(b)})
		var h [binary.MaxVarintLen64]byte
		n := binary.PutUvarint(h[:], uint64(len(j)))
		return append(append([]byte{}, h[:n]...), j...)
	}},
	"http-client": {"http-client", func() []netty.Handler {
		return []netty.Handler{xhttp.ClientCodec()}
	}, func(b []byte) []byte {
		var buf bytes.Buffer
		httpReq(b).Write(&buf) // net/http's own serialisation is the reference
		return buf.Bytes()
	}},
	"varint": {"varint", func() []netty.Handler {
		return []netty.Handler{frame.VarintLengthFieldCodec(1 << 20)}
	}, func(b []byte) []byte {
		var h [binary.MaxVarintLen64]byte
		n := binary.PutUvarint(h[:], uint64(len(b)))
		return append(append([]byte{}, h[:n]...), b...)
	}},
}

type msg struct {
	id      int
	carrier string
	size    int
	frame   []byte
	body    []byte // set when the body cannot be cut out of the frame
	err     error
	done    bool
}

type obs struct {
	env  *hlib.Env
	msgs [][]*msg // per thread
}

// classify names the mechanism by which a message becomes several low-level writes
// (used in finding keys so that known multi-write carriers stay distinguishable).
func classify(p pipe, m *msg) string {
	c := m.carrier
	switch {
	case p.name == "delimiter+text" && c != "[]byte":
		// the delimiter codec turns every non-[]byte message into io.MultiReader(body, delimiter)
		return "delimiter-codec/multireader:" + c
	case c == "Reader" && m.size > 1024:
		return p.name + "/Reader(>1024:several chunks)"
	case c == "Reader/frag":
		return p.name + "/Reader(short reads:several chunks)"
	case c == "WriterTo/2":
		return p.name + "/WriterTo(several writes)"
	}
	return p.name + "/" + c
}

func scenario(cfg hlib.ChanCfg, p pipe, plan [][]string, sizes [][]int, bound int) *explore.Scenario {
	name := fmt.Sprintf("%s/%s/", cfg, p.name)
	for i, th := range plan {
		if i > 0 {
			name += "|"
		}
		for j, c := range th {
			if j > 0 {
				name += ","
			}
			name += fmt.Sprintf("%s(%d)", c, sizes[i][j])
		}
	}
	return &explore.Scenario{
		Name:  name,
		Bound: bound,
		Cache: true,
		Cfg:   vsched.Config{MaxSteps: 8000},
		Init:  func() any { return &obs{} },
		Body: func(v any) {
			o := v.(*obs)
			hs := append([]netty.Handler{&hlib.Reader{}}, p.handlers()...)
			o.env = hlib.NewEnv(cfg, nil, hs...)
			id := 1
			var ths []*vsched.Thread
			for i, th := range plan {
				var ms []*msg
				for j, c := range th {
					body := mock.Payload(id, sizes[i][j])
					if c == "string" || p.name == "delimiter+text" {
						for k := range body { // keep delimiter bytes out of bodies
							if body[k] == '\n' {
								body[k] = '.'
							}
						}
					}
					m := &msg{id: id, carrier: c, size: sizes[i][j], frame: p.frame(body)}
					if p.name == "http-client" {
						m.body = body
					}
					ms = append(ms, m)
					id++
				}
				o.msgs = append(o.msgs, ms)
				ths = append(ths, vsched.Go(fmt.Sprintf("w%d", i+1), func() {
					for _, m := range ms {
						body := m.frame
						if m.body != nil {
							body = m.body
						}
						switch p.name {
						case "delimiter+text":
							body = body[:len(body)-1]
						case "prepender2":
							body = body[2:]
						case "varint", "varint+json":
							_, k := binary.Uvarint(body)
							body = body[k:]
						}
						m.err = o.env.Ch.Write(carriers[m.carrier].mk(append([]byte(nil), body...)))
						m.done = true
					}
				}))
			}
			for _, t := range ths {
				vsched.Join(t)
			}
		},
		Outcome: func(x *vsched.Exec, v any) string {
			o := v.(*obs)
			var b strings.Builder
			for _, e := range o.env.T.Log {
				if (e.Kind == 'W' || e.Kind == 'V') && !e.Failed {
					fmt.Fprintf(&b, "%c%d ", e.Kind, len(e.Data))
				} else {
					b.WriteByte(e.Kind)
					b.WriteByte(' ')
				}
			}
			return b.String() + hashWire(o.env.T.Wire())
		},
		Check: func(x *vsched.Exec, v any) []explore.Finding {
			o := v.(*obs)
			wire := o.env.T.Wire()
			var all []*msg
			for _, ms := range o.msgs {
				all = append(all, ms...)
			}
			used := map[int]bool{}
			pos := 0
			for pos < len(wire) {
				var hit *msg
				bestLen, best := -1, (*msg)(nil)
				for _, m := range all {
					if used[m.id] {
						continue
					}
					k := 0
					for k < len(m.frame) && pos+k < len(wire) && wire[pos+k] == m.frame[k] {
						k++
					}
					if k == len(m.frame) {
						hit = m
						break
					}
					if k > bestLen {
						bestLen, best = k, m
					}
				}
				if hit == nil {
					what := "bytes that belong to no message"
					key := "garbled-wire"
					if best != nil && bestLen > 0 {
						what = fmt.Sprintf("message #%d (%s, %d bytes) is cut after %d of its %d wire bytes by bytes of another message", best.id, best.carrier, best.size, bestLen, len(best.frame))
						key = "split/" + classify(p, best)
					}
					return []explore.Finding{{Key: key, Msg: fmt.Sprintf("at wire offset %d: %s; transport log: %s", pos, what, o.env.T.LogString())}}
				}
				used[hit.id] = true
				pos += len(hit.frame)
			}
			var fs []explore.Finding
			if x.Abnormal() == "" {
				for _, m := range all {
					if m.done && m.err == nil && !used[m.id] && len(m.frame) > 0 {
						fs = append(fs, explore.Finding{Key: "message-missing/" + classify(p, m), Msg: fmt.Sprintf("message #%d (%s) was written without error but its bytes never reached the transport; log: %s", m.id, m.carrier, o.env.T.LogString())})
					}
				}
			}
			return fs
		},
	}
}

func hashWire(w []byte) string {
	var h uint64 = 1469598103934665603
	for _, c := range w {
		h = (h ^ uint64(c)) * 1099511628211
	}
	return fmt.Sprintf("%x", h)
}

func build(tier string) []*explore.Scenario {
	var scs []*explore.Scenario
	bound := 2
	cfgs := []hlib.ChanCfg{{0, false}, {2, true}, {4, true}}
	if tier == "thorough" {
		bound = 3
		cfgs = append(cfgs, hlib.ChanCfg{1, true}, hlib.ChanCfg{8, true}) // (non-blocking queues drop messages with a queue-full exception: outside this property)
	}
	type plan struct {
		pipe  string
		cs    [][]string
		sizes [][]int
	}
	plans := []plan{
		{"none", [][]string{{"[]byte", "[][]byte"}, {"*bytes.Buffer", "[]byte"}}, [][]int{{10, 1025}, {1024, 10}}},
		{"none", [][]string{{"*bytes.Reader", "WriterTo/1"}, {"[][]byte"}}, [][]int{{10, 2500}, {1025}}},
		{"none", [][]string{{"Reader"}, {"Reader", "[]byte"}}, [][]int{{1024}, {10, 10}}},
		{"none", [][]string{{"WriterTo/2"}, {"[]byte"}}, [][]int{{10}, {10}}},
		// readers that are also io.WriterTo must go out as ONE write however large they are
		{"none", [][]string{{"*bytes.Reader"}, {"*strings.Reader"}}, [][]int{{2500}, {1025}}},
		{"text", [][]string{{"string"}, {"string", "[]byte"}}, [][]int{{2500}, {1025, 10}}},
		{"none", [][]string{{"Reader"}, {"[]byte"}}, [][]int{{2500}, {10}}},
		{"none", [][]string{{"Reader/frag"}, {"[][]byte"}}, [][]int{{10}, {10}}},
		{"delimiter+text", [][]string{{"string"}, {"string"}}, [][]int{{10}, {10}}},
		{"delimiter+text", [][]string{{"[]byte", "[]byte"}, {"[]byte"}}, [][]int{{10, 1025}, {10}}},
		{"delimiter+text", [][]string{{"*bytes.Buffer"}, {"[]byte"}}, [][]int{{10}, {10}}},
		{"delimiter+text", [][]string{{"Reader"}, {"string"}}, [][]int{{10}, {10}}},
		{"prepender2", [][]string{{"[]byte", "*bytes.Buffer"}, {"[][]byte", "*bytes.Reader"}}, [][]int{{10, 1024}, {1025, 10}}},
		{"varint", [][]string{{"[]byte", "Reader"}, {"*bytes.Buffer"}}, [][]int{{10, 2500}, {1025}}},
		{"varint+json", [][]string{{"json-object", "json-object"}, {"json-object"}}, [][]int{{10, 600}, {1025}}},
		// both writers use the same carrier type and size class (whatever scratch memory a codec uses
		// for one message is wanted by the other one at the same time)
		{"prepender2", [][]string{{"[][]byte"}, {"[][]byte", "[][]byte"}}, [][]int{{10}, {12, 10}}},
		{"varint", [][]string{{"[][]byte"}, {"[][]byte", "string"}}, [][]int{{10}, {12, 10}}},
		{"prepender2", [][]string{{"*bytes.Buffer"}, {"*bytes.Buffer", "*strings.Reader"}}, [][]int{{10}, {12, 10}}},
		{"http-client", [][]string{{"*http.Request"}, {"*http.Request", "*http.Request"}}, [][]int{{10}, {600, 10}}},
	}
	if tier == "thorough" {
		plans = append(plans,
			plan{"none", [][]string{{"[]byte"}, {"[][]byte"}, {"*bytes.Buffer"}}, [][]int{{10}, {1025}, {2500}}},
			plan{"varint", [][]string{{"string"}, {"[][]byte"}}, [][]int{{10}, {10}}},
		)
	}
	for _, cfg := range cfgs {
		for _, pl := range plans {
			scs = append(scs, scenario(cfg, pipes[pl.pipe], pl.cs, pl.sizes, bound))
		}
	}
	return scs
}

func main() {
	explore.Main(explore.Spec{
		Property:    "C09",
		Rule:        "all interleavings up to the preemption bound of 2 (thorough 3) goroutines calling Channel.Write with 1-2 messages each; head-of-pipeline carriers []byte, [][]byte, *bytes.Buffer, *bytes.Reader, single-write and multi-write io.WriterTo, plain io.Reader (<=1024, >1024, fragmenting), string via the text codec; pipelines none, delimiter+text (README), length-field prepender, varint, varint+json, the HTTP client codec with *http.Request messages; sizes 10/1024/1025/2500; sync, aq(2,B), aq(4,B); oracle: the wire parses into whole frames; distinct = distinct (write-size sequence, wire hash) observations",
		Assume:      []string{"sequentially consistent interleavings", "known findings are keyed by pipeline/carrier class (see known_findings.json); every other carrier must stay contiguous"},
		Build:       build,
		MinOutcomes: 2,
	})
}
