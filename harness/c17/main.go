//go:build verif

// C17: transport wrappers preserve the byte stream for every buffering configuration.
package main

import (
	"bytes"
	"encoding/json"
	"fmt"
	"io"
	"net"
	"time"

	"github.com/go-netty/go-netty/transport"
	"github.com/go-netty/go-netty/zz_verif/explore"
)

// fakeConn is the far end: it records what it is sent and serves scripted fragments.
type fakeConn struct {
	got         []byte
	in          [][]byte
	calls       int
	dataWithEOF bool
}

func (f *fakeConn) Read(p []byte) (int, error) {
	if len(f.in) == 0 {
		return 0, io.EOF
	}
	n := copy(p, f.in[0])
	if n < len(f.in[0]) {
		f.in[0] = f.in[0][n:]
	} else {
		f.in = f.in[1:]
	}
	if f.dataWithEOF && len(f.in) == 0 {
		return n, io.EOF
	}
	return n, nil
}
func (f *fakeConn) Write(p []byte) (int, error) {
	f.calls++
	f.got = append(f.got, p...)
	return len(p), nil
}
func (f *fakeConn) Close() error                       { return nil }
func (f *fakeConn) LocalAddr() net.Addr                { return &net.TCPAddr{} }
func (f *fakeConn) RemoteAddr() net.Addr               { return &net.TCPAddr{} }
func (f *fakeConn) SetDeadline(t time.Time) error      { return nil }
func (f *fakeConn) SetReadDeadline(t time.Time) error  { return nil }
func (f *fakeConn) SetWriteDeadline(t time.Time) error { return nil }

type wop struct {
	Kind string `json:"k"` // "w" Write(A) | "v" Writev(A,B) | "f" Flush
	A    int    `json:"a,omitempty"`
	B    int    `json:"b,omitempty"`
}

type wcase struct {
	R   int   `json:"read_buf"`
	W   int   `json:"write_buf"`
	Ops []wop `json:"ops"`
}

func fill(seq *int, n int) []byte {
	b := make([]byte, n)
	for i := range b {
		b[i] = byte(*seq)
		*seq++
	}
	return b
}

func runWrites(c wcase) (state string, key, msg string) {
	conn := &fakeConn{}
	t := transport.NewTransport(conn, c.R, c.W)
	var want []byte
	seq := 1
	for i, o := range c.Ops {
		switch o.Kind {
		case "w":
			p := fill(&seq, o.A)
			want = append(want, p...)
			n, err := t.Write(p)
			if err != nil || n != len(p) {
				return "", "write-result", fmt.Sprintf("%+v: op %d Write(%d) returned (%d,%v)", c, i, o.A, n, err)
			}
			scribble(p) // io.Writer: the callee must not retain p; the caller reuses it at once
		case "v":
			a, b := fill(&seq, o.A), fill(&seq, o.B)
			want = append(append(want, a...), b...)
			n, err := t.Writev(transport.Buffers{a, b})
			if err != nil || n != int64(len(a)+len(b)) {
				return "", "writev-result", fmt.Sprintf("%+v: op %d Writev(%d,%d) returned (%d,%v)", c, i, o.A, o.B, n, err)
			}
			scribble(a) // the channel's sender recycles its packets right after Writev and flushes later
			scribble(b)
		case "m": // a vector of o.A one- and two-byte slices (the async sender merges up to queue/2+1 packets into one vector)
			var vec transport.Buffers
			total := 0
			for k := 0; k < o.A; k++ {
				b := fill(&seq, 1+k%2)
				want = append(want, b...)
				vec = append(vec, b)
				total += len(b)
			}
			n, err := t.Writev(append(transport.Buffers{}, vec...))
			if err != nil || n != int64(total) {
				return "", "writev-result", fmt.Sprintf("%+v: op %d Writev(%d slices, %d bytes) returned (%d,%v)", c, i, o.A, total, n, err)
			}
			for _, b := range vec {
				scribble(b)
			}
		case "f":
			if err := t.Flush(); err != nil {
				return "", "flush-result", fmt.Sprintf("%+v: op %d Flush returned %v", c, i, err)
			}
			if !bytes.Equal(conn.got, want) {
				return "", "flush-incomplete", fmt.Sprintf("%+v: after op %d (Flush) the peer has %d bytes %v, written so far %d bytes %v", c, i, len(conn.got), clip(conn.got), len(want), clip(want))
			}
		}
		if !bytes.HasPrefix(want, conn.got) {
			return "", "reordered", fmt.Sprintf("%+v: after op %d the peer has %v which is not a prefix of the bytes written in call order %v", c, i, clip(conn.got), clip(want))
		}
	}
	return fmt.Sprint(len(want), len(conn.got)), "", ""
}

func scribble(b []byte) {
	for i := range b {
		b[i] = 0xEE
	}
}

func clip(b []byte) []byte {
	if len(b) > 40 {
		return b[:40]
	}
	return b
}

func writeSeqs(name string, depth int, bufs []int) *explore.Scenario {
	run := func(c *explore.EnumCtx) {
		for _, r := range []int{0, 16} {
			for _, w := range append([]int{0}, bufs...) {
				sizes := []int{0, 1, 5}
				if w > 0 {
					sizes = []int{0, 1, w - 1, w, w + 1, 2*w + 1}
				}
				var ops []wop
				for _, a := range sizes {
					ops = append(ops, wop{Kind: "w", A: a})
				}
				for _, a := range sizes {
					for _, b := range sizes {
						if a == 0 && b == 0 && len(sizes) > 3 {
							continue
						}
						ops = append(ops, wop{Kind: "v", A: a, B: b})
					}
				}
				ops = append(ops, wop{Kind: "m", A: 17}, wop{Kind: "m", A: 33}, wop{Kind: "f"})
				var rec func(cur []wop)
				rec = func(cur []wop) {
					if len(cur) > 0 {
						if c.Mine() {
							// every sequence is also checked with a final Flush
							full := wcase{r, w, append(append([]wop{}, cur...), wop{Kind: "f"})}
							st, k, m := runWrites(full)
							c.Case(fmt.Sprint(r, w, cur), len(cur) <= 3, func() any { return full }) // (longer sequences are counted as cases only: keeps the dedup table small)
							c.Count(0, int64(len(full.Ops)))
							if k != "" {
								c.Fail(k+variant(r, w), m, full)
							}
							_ = st
						}
					}
					if len(cur) == depth || c.Expired() {
						return
					}
					for _, o := range ops {
						rec(append(cur, o))
					}
				}
				rec(nil)
			}
		}
	}
	return &explore.Scenario{
		Name:   name,
		Bound:  depth,
		Shards: 16,
		Enum:   run,
		Replay: func(c *explore.EnumCtx, desc json.RawMessage) {
			var wc wcase
			json.Unmarshal(desc, &wc)
			if _, k, m := runWrites(wc); k != "" {
				c.Fail(k+variant(wc.R, wc.W), m, wc)
			}
		},
	}
}

func variant(r, w int) string {
	switch {
	case r > 0 && w > 0:
		return "/read+write-buffered"
	case r > 0:
		return "/read-buffered"
	case w > 0:
		return "/write-buffered"
	}
	return "/unbuffered"
}

type rcase struct {
	R     int   `json:"read_buf"`
	W     int   `json:"write_buf"`
	N     int   `json:"stream_len"`
	Cuts  int   `json:"cuts"`  // bit i set: fragment boundary after byte i
	Reads []int `json:"reads"` // caller read sizes, cycled
	// DataWithEOF: the connection returns its last fragment together with io.EOF (as crypto/tls and many
	// in-memory connections do)
	DataWithEOF bool `json:"data_with_eof,omitempty"`
}

func runReads(c rcase) (string, string) {
	stream := make([]byte, c.N)
	for i := range stream {
		stream[i] = byte(i + 1)
	}
	conn := &fakeConn{dataWithEOF: c.DataWithEOF}
	start := 0
	for i := 0; i < c.N; i++ {
		if i == c.N-1 || c.Cuts>>i&1 == 1 {
			conn.in = append(conn.in, append([]byte(nil), stream[start:i+1]...))
			start = i + 1
		}
	}
	t := transport.NewTransport(conn, c.R, c.W)
	var got []byte
	for k := 0; k < 4*c.N+8; k++ {
		p := make([]byte, c.Reads[k%len(c.Reads)])
		n, err := t.Read(p)
		got = append(got, p[:n]...)
		if err == io.EOF {
			break
		}
		if err != nil {
			return "read-error", fmt.Sprintf("%+v: Read returned %v", c, err)
		}
	}
	if !bytes.Equal(got, stream) {
		return "read-stream", fmt.Sprintf("%+v: reads returned %v, the peer sent %v", c, got, stream)
	}
	return "", ""
}

func readSide(n int) *explore.Scenario {
	patterns := [][]int{{1}, {3}, {64}, {1, 64}, {3, 16}, {2, 17}, {16}, {5, 1, 32}}
	return &explore.Scenario{
		Name:   fmt.Sprintf("reads(stream<=%d, all fragmentations)", n),
		Shards: 8,
		Enum: func(c *explore.EnumCtx) {
			for _, r := range []int{0, 1, 16, 64} {
				for _, w := range []int{0, 16} {
					for ln := 1; ln <= n; ln++ {
						for cuts := 0; cuts < 1<<(ln-1); cuts++ {
							if !c.Mine() {
								continue
							}
							for _, pat := range patterns {
								if c.Expired() {
									return
								}
								for _, dwe := range []bool{false, true} {
									rc := rcase{r, w, ln, cuts, pat, dwe}
									k, m := runReads(rc)
									c.Case(fmt.Sprint(r, w, ln, cuts, pat, dwe), true, func() any { return rc })
									c.Count(0, 1)
									if k != "" {
										c.Fail(k+variant(r, w), m, rc)
									}
								}
							}
						}
					}
					// longer streams (beyond the read buffer): 1-byte, 2 and 3 fragments
					for _, ln := range []int{17, 33, 40} {
						for a := 1; a < ln; a++ {
							for b := a; b < ln; b += 7 {
								for _, pat := range patterns {
									rc := rcase{r, w, ln, 1<<(a-1) | 1<<(b-1), pat, (a+b)%2 == 1}
									k, m := runReads(rc)
									c.Case(fmt.Sprint("L", r, w, ln, a, b, pat), true, nil)
									c.Count(0, 1)
									if k != "" {
										c.Fail(k+variant(r, w), m, rc)
									}
								}
							}
						}
					}
				}
			}
		},
		Replay: func(c *explore.EnumCtx, desc json.RawMessage) {
			var rc rcase
			json.Unmarshal(desc, &rc)
			if k, m := runReads(rc); k != "" {
				c.Fail(k+variant(rc.R, rc.W), m, rc)
			}
		},
	}
}

func build(tier string) []*explore.Scenario {
	if tier == "thorough" {
		return []*explore.Scenario{writeSeqs("write-sequences(depth<=4,buf 1/16/64)", 4, []int{1, 16, 64}), writeSeqs("write-sequences(depth<=4,buf 4/8)", 4, []int{4, 8}), readSide(12)}
	}
	return []*explore.Scenario{writeSeqs("write-sequences(depth<=3,buf 1/16/64)", 3, []int{1, 16, 64}), writeSeqs("write-sequences(depth<=4,buf 4)", 4, []int{4}), readSide(9)}
}

func main() {
	explore.Main(explore.Spec{
		Property: "C17",
		Rule:     "every sequence of Write(s) / Writev(s1,s2) / Flush up to depth 3-4 (thorough 4-5) with s in {0,1,buf-1,buf,buf+1,2buf+1} on all four wrapper variants x write buffers {1,4,16,64}, each also closed by a final Flush, with the caller overwriting its buffers right after every call, against a byte-queue model (peer bytes are always a prefix of the bytes written in call order, and equal after every Flush); read side: every fragmentation (all 2^(n-1) compositions) of peer streams up to 9 (thorough 12) bytes plus 17/33/40-byte streams with 2-3 fragments, read buffers {none,1,16,64}, caller read-size patterns incl. mixed small/large reads; distinct = distinct cases",
		Assume:   []string{"a fake net.Conn that accepts every write and serves scripted fragments", "single goroutine"},
		Build:    build,
	})
}
