//go:build verif

// C18: back-pressure - non-blocking mode never blocks; blocking mode is cancellable;
// accepted-but-unsent payloads are bounded by queue size + batch.
package main

import (
	"bytes"
	"context"
	"errors"
	"fmt"
	"io"
	"net"
	"time"

	netty "github.com/go-netty/go-netty"
	"github.com/go-netty/go-netty/zz_verif/explore"
	"github.com/go-netty/go-netty/zz_verif/hlib"
	"github.com/go-netty/go-netty/zz_verif/mock"
	"github.com/go-netty/go-netty/zz_verif/vcontext"
	"github.com/go-netty/go-netty/zz_verif/vsched"
)

var errClose = errors.New("closed by test")

type wspec struct {
	ctx string // "bg" | "cancelled" | "cancel-later" | "deadline"
	eps []hlib.EP
}

type obs struct {
	env     *hlib.Env
	ws      []*hlib.Writer
	ctxs    []context.Context
	full    []int // logical steps at which the queue was observed full
	maxGap  int   // max over sampled steps of (calls returned successfully - payloads handed to the transport)
	gapInfo string
	closed  bool
	logIdx  int
	sent    int
	threads []*vsched.Thread // writer threads, index = writer
	doneAt  []int            // Blocked counter of writer i when its context was first seen done (-1: not yet)
	stuck   string           // a writer kept waiting although its context had ended
}

func (o *obs) sample(x *vsched.Exec) {
	if o.env == nil || o.env.Ch == nil {
		return
	}
	_, ql, qc, _ := hlib.ChanState(o.env.Ch)
	if qc > 0 && ql == qc {
		if n := len(o.full); n == 0 || o.full[n-1] != x.Steps() {
			o.full = append(o.full, x.Steps())
		}
	}
	ok := 0
	for _, w := range o.ws {
		for _, c := range w.Calls {
			if c.OK() && c.Size > 0 {
				ok++
			}
		}
	}
	for ; o.logIdx < len(o.env.T.Log); o.logIdx++ {
		if e := o.env.T.Log[o.logIdx]; (e.Kind == 'V' || e.Kind == 'W') && !e.Failed {
			o.sent += e.Parts
		}
	}
	sent := o.sent
	// blocking mode must be cancellable: once the caller's context has ended the call may not keep waiting
	for i, w := range o.ws {
		if i >= len(o.threads) || i >= len(o.ctxs) || o.threads[i] == nil || o.stuck != "" {
			continue
		}
		inFlight := false
		for _, c := range w.Calls {
			if c.End < 0 && c.Begin > 0 {
				inFlight = true
			}
		}
		ended := false
		select {
		case <-o.ctxs[i].Done():
			ended = true
		default:
		}
		if !inFlight || !ended {
			o.doneAt[i] = -1
			continue
		}
		if o.doneAt[i] < 0 {
			o.doneAt[i] = o.threads[i].Blocked
		} else if o.threads[i].Blocked > o.doneAt[i] {
			o.stuck = fmt.Sprintf("writer %s is still waiting inside its write call although its context has ended", w.Name)
		}
	}
	if ok-sent > o.maxGap {
		o.maxGap = ok - sent
		o.gapInfo = fmt.Sprintf("%d calls had returned success, %d payloads handed to the transport (queue %d/%d)", ok, sent, ql, qc)
	}
}

func scenario(cfg hlib.ChanCfg, specs []wspec, closeWith string, bound int, tag string) *explore.Scenario {
	// closeWith "parent": nobody calls Close; the channel's parent context (the bootstrap's, a Connect option)
	// is cancelled while writers wait
	parentCancel := closeWith == "parent"
	if parentCancel {
		closeWith = ""
		tag += "/parent-context-cancelled"
	}
	name := fmt.Sprintf("%s/", cfg)
	for i, s := range specs {
		if i > 0 {
			name += "|"
		}
		name += fmt.Sprintf("%s:%v", s.ctx, s.eps)
	}
	closer := closeWith != ""
	if closer {
		name += "/closer(" + closeWith + ")"
	}
	name += tag
	var cur *obs
	return &explore.Scenario{
		Name:  name,
		Bound: bound,
		Cache: true,
		Cfg: vsched.Config{MaxSteps: 6000, OnStep: func(x *vsched.Exec) {
			if cur != nil {
				cur.sample(x)
			}
		}},
		Init: func() any { cur = &obs{}; return cur },
		Body: func(v any) {
			o := v.(*obs)
			var cancelParent func()
			if parentCancel {
				var parent context.Context
				parent, cancelParent = vcontext.WithCancel(context.Background())
				o.env = hlib.NewEnv(cfg, parent)
			} else {
				o.env = hlib.NewEnv(cfg, nil)
			}
			o.env.T.Stalled = true // the sender gets stuck in its first transport write
			id := 1
			var cancels []func()
			for i, s := range specs {
				w := &hlib.Writer{Name: fmt.Sprintf("w%d", i+1)}
				for _, ep := range s.eps {
					w.Calls = append(w.Calls, hlib.NewCall(id, ep, 3))
					id++
				}
				o.ws = append(o.ws, w)
				var c context.Context = context.Background()
				switch s.ctx {
				case "cancelled":
					cc, cancel := vcontext.WithCancel(context.Background())
					cancel()
					c = cc
				case "cancel-later":
					cc, cancel := vcontext.WithCancel(context.Background())
					cancels = append(cancels, cancel)
					c = cc
				case "deadline":
					cc, _ := vcontext.WithTimeout(context.Background(), 50*time.Millisecond)
					c = cc
				}
				o.ctxs = append(o.ctxs, c)
			}
			var ths []*vsched.Thread
			o.doneAt = make([]int, len(o.ws))
			for i := range o.doneAt {
				o.doneAt[i] = -1
			}
			for i, w := range o.ws {
				w, c := w, o.ctxs[i]
				th := vsched.Go(w.Name, func() { w.Run(o.env.Ch, c) })
				ths = append(ths, th)
				o.threads = append(o.threads, th)
			}
			if len(cancels) > 0 {
				ths = append(ths, vsched.Go("canceller", func() {
					for _, c := range cancels {
						c()
					}
				}))
			}
			if cancelParent != nil {
				ths = append(ths, vsched.Go("parent", cancelParent))
			}
			if closer {
				ths = append(ths, vsched.Go("closer", func() {
					if closeWith == "nil" {
						o.env.Ch.Close(nil)
					} else {
						o.env.Ch.Close(errClose)
					}
					o.closed = true
				}))
			}
			// the environment eventually un-stalls the transport (after the deadline contexts expired)
			ths = append(ths, vsched.Go("peer", func() {
				vsched.Sleep(int64(200 * time.Millisecond))
				o.env.T.Release()
			}))
			for _, t := range ths {
				vsched.Join(t)
			}
		},
		Outcome: func(x *vsched.Exec, v any) string {
			o := v.(*obs)
			return o.env.T.LogString() + " | " + hlib.Describe(o.ws) + fmt.Sprintf(" gap=%d", o.maxGap)
		},
		Check: func(x *vsched.Exec, v any) []explore.Finding {
			o := v.(*obs)
			var fs []explore.Finding
			t := o.env.T
			ctxs := " log: " + t.LogString() + " | " + hlib.Describe(o.ws)
			calls := hlib.CallMap(o.ws)
			seq, perr := hlib.ParseWire(t.Wire(), calls)
			if perr != "" {
				return []explore.Finding{{Key: "garbled-wire", Msg: perr + ctxs}}
			}
			on := map[int]bool{}
			for _, id := range seq {
				on[id] = true
			}
			for wi, w := range o.ws {
				for _, c := range w.Calls {
					if c.End < 0 {
						fs = append(fs, explore.Finding{Key: "call-never-returned", Msg: fmt.Sprintf("call #%d never returned;%s", c.ID, ctxs)})
						continue
					}
					if !cfg.Until {
						// non-blocking mode
						if c.Blocked > 0 {
							fs = append(fs, explore.Finding{Key: "nonblocking-call-blocked/" + c.EP.String(), Msg: fmt.Sprintf("call #%d on a non-blocking channel waited (its goroutine was disabled %d times inside the call);%s", c.ID, c.Blocked, ctxs)})
						}
						if errors.Is(c.Err, netty.ErrAsyncNoSpace) {
							just := false
							for _, s := range o.full {
								if s >= c.Begin-1 && s <= c.End {
									just = true
								}
							}
							if !just {
								fs = append(fs, explore.Finding{Key: "nospace-but-not-full/" + c.EP.String(), Msg: fmt.Sprintf("call #%d reported a full queue but the queue was not full at any moment of the call;%s", c.ID, ctxs)})
							}
						}
					}
					if c.Err != nil {
						if on[c.ID] {
							fs = append(fs, explore.Finding{Key: "failed-call-sent/" + c.EP.String(), Msg: fmt.Sprintf("call #%d returned %v but its payload was transmitted;%s", c.ID, c.Err, ctxs)})
						}
						cerr := o.ctxs[wi].Err()
						okErr := (cerr != nil && errors.Is(c.Err, cerr)) || (parentCancel && (errors.Is(c.Err, context.Canceled) || errors.Is(c.Err, net.ErrClosed))) || (closeWith == "err" && errors.Is(c.Err, errClose)) || (closeWith == "nil" && errors.Is(c.Err, net.ErrClosed)) || (!cfg.Until && errors.Is(c.Err, netty.ErrAsyncNoSpace))
						if !okErr {
							fs = append(fs, explore.Finding{Key: "unexpected-error/" + c.EP.String(), Msg: fmt.Sprintf("call #%d returned %v which is neither its context's error, the error the channel was closed with (net.ErrClosed for Close(nil)) nor (non-blocking) queue-full;%s", c.ID, c.Err, ctxs)})
						}
					} else {
						if c.N != int64(c.Size) {
							fs = append(fs, explore.Finding{Key: "wrong-count/" + c.EP.String(), Msg: fmt.Sprintf("call #%d succeeded with n=%d for %d bytes;%s", c.ID, c.N, c.Size, ctxs)})
						}
						if !on[c.ID] && !closer && !parentCancel {
							fs = append(fs, explore.Finding{Key: "accepted-not-sent", Msg: fmt.Sprintf("call #%d was accepted but never transmitted;%s", c.ID, ctxs)})
						}
					}
				}
			}
			if o.stuck != "" {
				fs = append(fs, explore.Finding{Key: "not-cancellable", Msg: o.stuck + ";" + ctxs})
			}
			limit := cfg.Q + cfg.Q/2 + 1
			if o.maxGap > limit {
				fs = append(fs, explore.Finding{Key: "too-many-unsent", Msg: fmt.Sprintf("%s; the limit is queue size + batch = %d;%s", o.gapInfo, limit, ctxs)})
			}
			return fs
		},
	}
}

// multiChunk: a reader-based send that spans several 1 KiB chunks on a non-blocking channel whose queue
// fills in the middle of the message (the sender is stalled): the call must come back at once - with the
// queue-full error, part of the message being queued already - and never wait for space.
func multiChunk(q int) *explore.Scenario {
	type mobs struct {
		env     *hlib.Env
		n       int64
		err     error
		done    bool
		blocked int
	}
	return &explore.Scenario{
		Name:  fmt.Sprintf("aq(%d,N)/ReadFrom(%d bytes in 1 KiB chunks) against a stalled sender", q, 1024*(q+2)),
		Bound: 2,
		Cache: true,
		Cfg:   vsched.Config{MaxSteps: 6000},
		Init:  func() any { return &mobs{} },
		Body: func(v any) {
			o := v.(*mobs)
			o.env = hlib.NewEnv(hlib.ChanCfg{Q: q, Until: false}, nil)
			o.env.T.Stalled = true
			w := vsched.Go("writer", func() {
				t := vsched.Cur()
				b0 := t.Blocked
				o.n, o.err = o.env.Ch.ReadFrom(struct{ io.Reader }{bytes.NewReader(make([]byte, 1024*(q+2)))})
				o.blocked = t.Blocked - b0
				o.done = true
			})
			peer := vsched.Go("peer", func() {
				vsched.Sleep(int64(200 * time.Millisecond))
				o.env.T.Release()
			})
			vsched.Join(w)
			vsched.Join(peer)
		},
		Outcome: func(x *vsched.Exec, v any) string {
			o := v.(*mobs)
			return fmt.Sprint(o.n, o.err, o.blocked, o.env.T.LogString())
		},
		Check: func(x *vsched.Exec, v any) []explore.Finding {
			o := v.(*mobs)
			var fs []explore.Finding
			if !o.done {
				fs = append(fs, explore.Finding{Key: "call-never-returned", Msg: "ReadFrom on a non-blocking channel never returned; log: " + o.env.T.LogString()})
			} else if o.blocked > 0 {
				fs = append(fs, explore.Finding{Key: "nonblocking-call-blocked/ReadFrom", Msg: fmt.Sprintf("ReadFrom on a non-blocking channel waited (its goroutine was disabled %d times inside the call) and returned (%d, %v); log: %s", o.blocked, o.n, o.err, o.env.T.LogString())})
			}
			return fs
		},
	}
}

func build(tier string) []*explore.Scenario {
	W1, WV, C1, CV := hlib.Write1, hlib.Writev, hlib.CtxWrite1, hlib.CtxWritev
	var scs []*explore.Scenario
	bound := 2
	qs := []int{1, 2}
	if tier == "thorough" {
		bound = 3
		qs = []int{1, 2, 3}
	}
	for _, q := range qs {
		for _, until := range []bool{false, true} {
			cfg := hlib.ChanCfg{Q: q, Until: until}
			scs = append(scs,
				scenario(cfg, []wspec{{"bg", []hlib.EP{W1, WV, W1}}, {"bg", []hlib.EP{WV}}}, "", bound, ""),
				scenario(cfg, []wspec{{"cancelled", []hlib.EP{C1, CV}}, {"bg", []hlib.EP{C1, W1}}}, "", bound, ""),
				scenario(cfg, []wspec{{"cancel-later", []hlib.EP{C1, CV}}, {"bg", []hlib.EP{WV}}}, "", bound, ""),
				scenario(cfg, []wspec{{"deadline", []hlib.EP{CV, C1, CV}}, {"bg", []hlib.EP{W1}}}, "", bound, ""),
			)
			cws := []string{"err"}
			if q == 1 || tier == "thorough" {
				cws = append(cws, "nil", "parent") // (Close(nil); the parent context cancelled instead of a Close)
			}
			for _, cw := range cws {
				cs := scenario(cfg, []wspec{{"bg", []hlib.EP{W1, CV}}, {"bg", []hlib.EP{C1}}}, cw, bound, "")
				cs.Shards = 4
				scs = append(scs, cs)
			}
		}
	}
	scs = append(scs, multiChunk(1), multiChunk(2))
	// the accepted-but-unsent bound with larger queues: one writer issuing 2q+2 calls against a stalled sender
	for _, q := range []int{3, 4} {
		var eps []hlib.EP
		for i := 0; i < 2*q+2; i++ {
			eps = append(eps, []hlib.EP{W1, WV, C1}[i%3])
		}
		scs = append(scs, scenario(hlib.ChanCfg{Q: q, Until: true}, []wspec{{"bg", eps}}, "", 1, "/gap"))
	}
	return scs
}

func main() {
	explore.Main(explore.Spec{
		Property:    "C18",
		Rule:        "all interleavings up to the preemption bound of 2 writer goroutines (2-4 calls, contexts: background / already cancelled / cancelled concurrently / virtual-time deadline), a sender stalled inside the transport until an environment goroutine releases it, an optional closing goroutine; queue sizes 1..3, both modes; queue occupancy and the accepted-minus-sent gap are sampled at every scheduling step; distinct = distinct (transport log, call results, max gap) observations",
		Assume:      []string{"a goroutine counts as 'waiting' when the scheduler finds it disabled inside the call", "sequentially consistent interleavings"},
		Build:       build,
		MinOutcomes: 2,
	})
	_ = mock.Payload
}
