//go:build verif

// C02: no stranded writes - accepted payloads are sent and flushed unprompted.
package main

import (
	"errors"
	"fmt"
	"net"

	netty "github.com/go-netty/go-netty"
	"github.com/go-netty/go-netty/zz_verif/explore"
	"github.com/go-netty/go-netty/zz_verif/hlib"
	"github.com/go-netty/go-netty/zz_verif/vsched"
)

func build(tier string) []*explore.Scenario {
	var scs []*explore.Scenario
	cfgs := []hlib.ChanCfg{{0, false}, {1, true}, {1, false}, {2, true}, {2, false}, {3, true}}
	bound := 2
	if tier == "thorough" {
		bound = 3
	}
	for _, cfg := range cfgs {
		for mi, mix := range hlib.Mixes(2, 2) {
			p := hlib.WParams{Cfg: cfg, Writers: mix, Bound: bound, Cache: true}
			if tier == "thorough" && mi == 0 && cfg.Q > 0 && cfg.Q <= 2 && cfg.Until {
				p.Bound, p.Shards = 4, 8 // four preemptions for the first mix on the two smallest blocking queues
			}
			scs = append(scs, hlib.WriteScenario(p, hlib.CheckQuiescent))
		}
	}
	// the library's own buffering wrappers between the channel and the (mock) connection: a write
	// buffer smaller than two payloads (flushes in the middle of a payload) and the read+write wrapper
	for _, cfg := range []hlib.ChanCfg{{0, false}, {2, true}} {
		for _, wrap := range []hlib.Wrap{{0, 8}, {16, 16}} {
			scs = append(scs, hlib.WriteScenario(hlib.WParams{Cfg: cfg, Wrap: wrap, Writers: hlib.Mixes(2, 2)[1], Bound: bound, Cache: true}, hlib.CheckQuiescent))
		}
	}
	// three writers, one call each
	b3 := 2
	if tier == "thorough" {
		b3 = 3
	}
	for _, cfg := range []hlib.ChanCfg{{0, false}, {1, true}, {2, true}, {2, false}} {
		for _, mix := range hlib.Mixes(3, 1)[:2] {
			scs = append(scs, hlib.WriteScenario(hlib.WParams{Cfg: cfg, Writers: mix, Bound: b3, Cache: true}, hlib.CheckQuiescent))
		}
	}
	if tier == "thorough" {
		// three writers with two calls each (sharded)
		for _, cfg := range []hlib.ChanCfg{{1, true}, {2, true}, {2, false}} {
			scs = append(scs, hlib.WriteScenario(hlib.WParams{Cfg: cfg, Writers: hlib.Mixes(3, 2)[1], Bound: 2, Cache: true, Shards: 8, Tag: "3x2"}, hlib.CheckQuiescent))
		}
	}
	// larger queues (batch capacity q/2+1 > 2): one writer bursting 2q+2 calls, a second writer, one preemption
	for _, q := range []int{5, 8} {
		var burst []hlib.EP
		for i := 0; i < 2*q+2; i++ {
			burst = append(burst, []hlib.EP{hlib.Write1, hlib.Writev, hlib.CtxWrite1, hlib.CtxWritev, hlib.WriterWrite}[i%5])
		}
		for _, until := range []bool{true, false} {
			scs = append(scs, hlib.WriteScenario(hlib.WParams{Cfg: hlib.ChanCfg{Q: q, Until: until}, Writers: [][]hlib.EP{burst, {hlib.Writev, hlib.Write1}}, Bound: 1, Cache: true, Tag: "burst"}, hlib.CheckQuiescent))
		}
	}
	// a transport write that fails in the background sender (a plain error, a connection reset, an expired
	// write deadline) under an application that consumes exceptions: if the channel is still open when
	// everything is at rest, nothing accepted may be left behind
	for _, q := range []int{2, 5} {
		for ei, werr := range []error{nil, &net.OpError{Op: "write", Net: "mock", Err: errors.New("connection reset")}, &net.OpError{Op: "write", Net: "mock", Err: hlib.TimeoutErr{}}} {
			for _, at := range []int{1, 2} {
				werr, at := werr, at
				var burst []hlib.EP
				for i := 0; i < q+2; i++ {
					burst = append(burst, []hlib.EP{hlib.Write1, hlib.Writev, hlib.CtxWrite1}[i%3])
				}
				scs = append(scs, hlib.WriteScenario(hlib.WParams{Cfg: hlib.ChanCfg{Q: q, Until: true}, Writers: [][]hlib.EP{burst, {hlib.Writev}}, Bound: 1, Cache: true,
					Tag:      fmt.Sprintf("write#%d-fails(%s)+exceptions-consumed", at, []string{"error", "reset", "timeout"}[ei]),
					Handlers: func() []netty.Handler { return []netty.Handler{&hlib.Consumer{}} },
					Prep:     func(e *hlib.Env) { e.T.FailWriteAt, e.T.WriteErr = at, werr },
				}, func(x *vsched.Exec, o *hlib.WObs) []explore.Finding {
					if !o.Env.Ch.IsActive() {
						return nil // the failure closed the channel: nothing is promised for a closed channel
					}
					return hlib.CheckQuiescent(x, o)
				}))
			}
		}
	}
	// synchronous channel: a context writer whose context is (or gets) cancelled next to plain writers -
	// whatever the cancelled call does, the other writers' payloads must end up flushed
	for _, kinds := range [][]string{{"", "cancelled"}, {"", "cancel-later"}, {"cancel-later", "cancelled"}} {
		for _, wrap := range []hlib.Wrap{{}, {0, 16}} {
			scs = append(scs, hlib.WriteScenario(hlib.WParams{Cfg: hlib.ChanCfg{}, Wrap: wrap, Writers: [][]hlib.EP{{hlib.Write1, hlib.CtxWritev}, {hlib.CtxWrite1, hlib.CtxWritev}}, CtxKinds: kinds, Bound: bound, Cache: true, Tag: fmt.Sprintf("contexts=%v", kinds)}, hlib.CheckQuiescent))
		}
	}
	// size sweep: boundary sizes through every entry point (deviation bound 1)
	sizes := []int{0, 1, 1023, 1024, 1025, 2047, 2048, 2049, 4096, 65535, 65536, 65537, 131072}
	eps := []hlib.EP{hlib.Write1, hlib.Writev, hlib.CtxWrite1, hlib.CtxWritev, hlib.WriterWrite}
	for _, cfg := range []hlib.ChanCfg{{0, false}, {2, true}, {1, false}} {
		for i, sz := range sizes {
			a, b := eps[i%5], eps[(i+2)%5]
			other := sizes[(i+5)%len(sizes)]
			scs = append(scs, hlib.WriteScenario(hlib.WParams{Cfg: cfg, Writers: [][]hlib.EP{{a, b}, {b}}, Sizes: []int{sz, other, sz}, Bound: 1, Tag: "sizes"}, hlib.CheckQuiescent))
		}
	}
	return scs
}

func main() {
	explore.Main(explore.Spec{
		Property:    "C02",
		Rule:        "all interleavings up to the deviation (preemption) bound of 2-3 writer goroutines x 1-2 calls with the background sender(s) and executor start-up, per channel kind (sync, aq(n,B/N) n=1..3), entry-point mix (each of the 5 low-level entry points in every position) and a boundary size sweep; distinct = distinct (transport log, call results) observations",
		Assume:      []string{"mock transport accepts every write", "sequentially consistent interleavings at synchronisation granularity", "deterministic LIFO sync.Pool (maximal buffer reuse)"},
		Build:       build,
		MinOutcomes: 2,
	})
}
