//go:build verif

// C05: channel lifecycle - active once, sequential reads, inactive exactly once.
package main

import (
	"context"
	"errors"
	"fmt"
	"io"
	"net"
	"sort"
	"strings"

	netty "github.com/go-netty/go-netty"
	"github.com/go-netty/go-netty/transport"
	"github.com/go-netty/go-netty/zz_verif/explore"
	"github.com/go-netty/go-netty/zz_verif/hlib"
	"github.com/go-netty/go-netty/zz_verif/mock"
	"github.com/go-netty/go-netty/zz_verif/vcontext"
	"github.com/go-netty/go-netty/zz_verif/vsched"
)

type pev struct {
	kind string // active-begin active-end read-begin read-end inactive exception
	err  error
	step int
}

// closeRec is one issued Close call.
type closeRec struct {
	who       string
	arg       error
	returned  bool
	activeAft bool  // IsActive() right after the call returned
	ctxErrAft error // Context().Err() right after the call returned
}

type obs struct {
	env        *hlib.Env
	log        []pev
	closes     []*closeRec
	excToTail  []error // exceptions our probe forwarded towards the tail (each becomes a Close argument there)
	excBroken  []error // consumed exceptions that carry a non-timeout net.Error: the framework itself closes with them
	excEOF     int     // consumed exceptions carrying io.EOF
	served     int     // step at which ServeChannel returned
	parentUsed bool
}

type probe struct {
	panicInactive bool
	o             *obs
	closeOnAct    error
	closeOnRead   error
	readsSeen     int
	wrap          bool // the reading handler wraps transport errors (as the shipped codecs do) before panicking
	consume       bool // the application's exception handler logs and does not forward
}

func (p *probe) ev(k string, err error) {
	p.o.log = append(p.o.log, pev{k, err, vsched.X.Steps()})
}

func (p *probe) doClose(who string, ch netty.Channel, closeFn func(error), arg error) {
	r := &closeRec{who: who, arg: arg}
	p.o.closes = append(p.o.closes, r)
	closeFn(arg)
	r.returned = true
	r.activeAft = ch.IsActive()
	r.ctxErrAft = ch.Context().Err()
}

func (p *probe) HandleActive(ctx netty.ActiveContext) {
	p.ev("active-begin", nil)
	if p.closeOnAct != nil {
		p.doClose("onActive", ctx.Channel(), ctx.Close, p.closeOnAct)
	}
	ctx.HandleActive()
	p.ev("active-end", nil)
}

func (p *probe) HandleRead(ctx netty.InboundContext, msg netty.Message) {
	if p.o.excEOF+len(p.o.excBroken) < 2 { // (a spinning loop is recorded once)
		p.ev("read-begin", nil)
		defer p.ev("read-end", nil)
	}
	var b [16]byte
	_, err := msg.(io.Reader).Read(b[:])
	if err != nil {
		if p.wrap {
			panic(fmt.Errorf("read header fail: %w", err))
		}
		panic(err)
	}
	p.readsSeen++
	if p.closeOnRead != nil && p.readsSeen == 1 {
		p.doClose("onRead", ctx.Channel(), ctx.Close, p.closeOnRead)
	}
}

func (p *probe) HandleException(ctx netty.ExceptionContext, ex netty.Exception) {
	if p.consume {
		var ne net.Error
		if errors.As(ex, &ne) && !ne.Timeout() {
			if len(p.o.excBroken) == 0 {
				p.ev("exception", ex)
			}
			p.o.excBroken = append(p.o.excBroken, ex)
		} else if errors.Is(ex, io.EOF) {
			if p.o.excEOF == 0 {
				p.ev("exception", ex)
			}
			p.o.excEOF++
		} else {
			p.ev("exception", ex)
		}
		return
	}
	p.ev("exception", ex)
	p.o.excToTail = append(p.o.excToTail, ex)
	ctx.HandleException(ex) // reaches the tail, which closes the channel with ex
}

func (p *probe) HandleInactive(ctx netty.InactiveContext, ex netty.Exception) {
	p.ev("inactive", ex)
	if p.panicInactive {
		panic(errors.New("inactive handler failure"))
	}
	ctx.HandleInactive(ex)
}

var (
	errU1    = errors.New("user close 1")
	errU2    = errors.New("user close 2")
	errAct   = errors.New("closed in HandleActive")
	errRead  = errors.New("closed in HandleRead")
	errHold  = errors.New("holder CloseAll")
	errReset = errors.New("connection reset by peer")
)

// kinds of closers
const (
	kUser1  = "user1"
	kUser2  = "user2"
	kOnRead = "onRead"
	kOnAct  = "onActive"
	kPeer   = "peerClose" // read-side transport failure: peer closes, EOF surfaces as an exception
	kWFail  = "writeFail" // write-side failure in the background sender
	kHolder = "holder"
	kParent = "parentCancel"
	kReset  = "readReset" // read-side transport failure that is a non-timeout net.Error (connection reset)
	// not closers: how the application's handlers treat the read failure
	kWrap    = "codecWrapsError"
	kConsume = "exceptionConsumed"
	// not a closer: the channel runs over the library's read+write buffering wrapper (whose Close flushes)
	kBuffered = "bufferedTransport(16,16)"
	// not a closer: the application's inactive handler panics (after recording the event)
	kInactPanic = "inactiveHandlerPanics"
)

func scenario(cfg hlib.ChanCfg, kinds []string, bound int) *explore.Scenario {
	has := func(k string) bool {
		for _, x := range kinds {
			if x == k {
				return true
			}
		}
		return false
	}
	return &explore.Scenario{
		Name:          fmt.Sprintf("%s/%s", cfg, strings.Join(kinds, "+")),
		Bound:         bound,
		Cache:         true,
		Cfg:           vsched.Config{MaxSteps: 6000},
		AllowAbnormal: has(kConsume),
		Init:          func() any { return &obs{served: -1} },
		Body: func(v any) {
			o := v.(*obs)
			p := &probe{o: o}
			if has(kOnAct) {
				p.closeOnAct = errAct
			}
			if has(kOnRead) {
				p.closeOnRead = errRead
			}
			p.panicInactive = has(kInactPanic)
			p.wrap, p.consume = has(kWrap), has(kConsume)
			var parent context.Context = context.Background()
			var cancelParent func()
			if has(kParent) {
				parent, cancelParent = vcontext.WithCancel(context.Background())
				o.parentUsed = true
			}
			holder := netty.NewChannelHolder(4)
			// build by hand (NewEnv serves immediately; we need the transport scripted first)
			e := &hlib.Env{T: mock.NewTransport("t1"), Ctx: parent}
			o.env = e
			e.T.In = [][]byte{[]byte("m1")}
			if has(kPeer) {
				e.T.EOFAtEnd = true
			}
			if has(kWFail) {
				e.T.FailWriteAt = 1
			}
			if has(kReset) {
				e.T.ReadErr = &net.OpError{Op: "read", Net: "mock", Err: errReset}
			}
			e.PL = netty.NewPipeline()
			e.PL.AddLast(holder, p)
			var tr transport.Transport = e.T
			if has(kBuffered) {
				e.T.Wrapped = true
				tr = transport.NewTransport(e.T, 16, 16)
			}
			e.Ch = cfg.Factory()(1, parent, e.PL, tr, netty.AsyncExecutor())
			e.PL.ServeChannel(e.Ch)
			o.served = vsched.X.Steps()
			var ths []*vsched.Thread
			// one in-flight writer
			ths = append(ths, vsched.Go("writer", func() {
				e.Ch.Write1(mock.Payload(1, 3))
				e.Ch.Writev(hlib.Split(mock.Payload(2, 4)))
			}))
			user := func(name string, arg error) {
				ths = append(ths, vsched.Go(name, func() {
					p.doClose(name, e.Ch, e.Ch.Close, arg)
				}))
			}
			if has(kUser1) {
				user(kUser1, errU1)
			}
			if has(kUser2) {
				user(kUser2, errU2)
			}
			if has(kHolder) {
				ths = append(ths, vsched.Go("shutdown", func() {
					r := &closeRec{who: kHolder, arg: errHold}
					o.closes = append(o.closes, r)
					holder.CloseAll(errHold)
					r.returned = true
					r.activeAft = e.Ch.IsActive()
					r.ctxErrAft = e.Ch.Context().Err()
				}))
			}
			if has(kParent) {
				ths = append(ths, vsched.Go("parent", func() {
					cancelParent()
					e.T.Feed([]byte("z")) // a read must complete for the loop to notice
				}))
			}
			for _, t := range ths {
				vsched.Join(t)
			}
		},
		Outcome: func(x *vsched.Exec, v any) string {
			// canonical (linearisation independent): the multiset of handler events, the close
			// results and the transport log (whose order is fixed by the happens-before trace)
			o := v.(*obs)
			var evs []string
			for _, e := range o.log {
				s := e.kind
				if e.err != nil {
					s += "(" + e.err.Error() + ")"
				}
				evs = append(evs, s)
			}
			sort.Strings(evs)
			var cl []string
			for _, c := range o.closes {
				cl = append(cl, fmt.Sprintf("%s:%v", c.who, c.returned))
			}
			sort.Strings(cl)
			return strings.Join(evs, " ") + " | " + strings.Join(cl, " ") + " | " + o.env.T.LogString()
		},
		Check: func(x *vsched.Exec, v any) []explore.Finding {
			o := v.(*obs)
			var fs []explore.Finding
			add := func(key, msg string) {
				fs = append(fs, explore.Finding{Key: key, Msg: msg})
			}
			var desc strings.Builder
			for _, e := range o.log {
				fmt.Fprintf(&desc, "%s@%d ", e.kind, e.step)
			}
			ctxs := " events: " + desc.String() + "| transport: " + o.env.T.LogString()
			// active exactly once, completed before ServeChannel returned and before the first read
			nact, actEnd, firstRead := 0, -1, -1
			depth := 0
			ninact := 0
			var inactErr error
			for _, e := range o.log {
				switch e.kind {
				case "active-begin":
					nact++
				case "active-end":
					actEnd = e.step
				case "read-begin":
					if firstRead < 0 {
						firstRead = e.step
					}
					depth++
					if depth > 1 {
						add("overlapping-reads", "two read events were in progress at the same time;"+ctxs)
					}
				case "read-end":
					depth--
				case "inactive":
					ninact++
					inactErr = e.err
				}
			}
			if nact != 1 {
				add("active-count", fmt.Sprintf("active delivered %d times;%s", nact, ctxs))
			}
			if o.served >= 0 && (actEnd < 0 || actEnd > o.served) {
				add("served-before-active-done", "ServeChannel returned before the active event had completed;"+ctxs)
			}
			if firstRead >= 0 && (actEnd < 0 || firstRead < actEnd) {
				add("read-before-active-done", "a read was delivered before the active event had completed;"+ctxs)
			}
			// which closers are guaranteed to happen
			anyClose := len(o.closes) > 0 || len(o.excToTail) > 0 || o.parentUsed || len(o.excBroken) > 0
			if x.Abnormal() != "" && has(kConsume) {
				// the scheduler's verdict for a read loop that keeps calling a failed transport
				// (reads fail identically, nothing else can run) is a livelock
				if o.env.T.Closes == 0 && ninact == 0 && (len(o.excBroken) > 0 || o.excEOF > 0) {
					what := "eof"
					if len(o.excBroken) > 0 {
						what = "net-error"
						if has(kWrap) {
							what = "wrapped-net-error"
						}
					}
					add("read-loop-not-terminated/"+what+"+exception-consumed", fmt.Sprintf("transport reads fail (%s) but the read loop keeps running: %s;%s", what, x.Abnormal(), ctxs))
				} else {
					add("sched/"+strings.SplitN(x.Abnormal(), "[", 2)[0], "scheduler verdict: "+x.Abnormal()+";"+ctxs)
				}
			}
			if o.env.T.Closes > 1 {
				add("transport-closed-twice", fmt.Sprintf("transport Close called %d times;%s", o.env.T.Closes, ctxs))
			}
			if ninact > 1 {
				add("inactive-twice", fmt.Sprintf("inactive delivered %d times;%s", ninact, ctxs))
			}
			if anyClose && x.Abnormal() == "" {
				if o.env.T.Closes != 1 {
					add("transport-not-closed", "a close was requested but the transport was not closed;"+ctxs)
				}
				if ninact != 1 {
					add("inactive-missing", "a close was requested but inactive was not delivered;"+ctxs)
				}
				for _, t := range x.Threads() {
					if !t.Done() {
						add("goroutine-left", "goroutine "+t.Name+" did not terminate after the channel was closed;"+ctxs)
						break
					}
				}
			}
			if ninact == 1 {
				// the inactive error is identical to one issued Close argument
				ok := false
				// ("carrying the error of the Close call": identity, or an error that wraps it)
				for _, c := range o.closes {
					if c.arg == inactErr || (c.arg != nil && errors.Is(inactErr, c.arg)) {
						ok = true
					}
				}
				for _, e := range o.excToTail {
					if e == inactErr || (e != nil && errors.Is(inactErr, e)) {
						ok = true
					}
				}
				for _, e := range o.excBroken { // the framework's own Close(e) for a broken transport
					if e == inactErr || errors.Is(inactErr, e) {
						ok = true
					}
				}
				if has(kWFail) && inactErr == mock.ErrInjected {
					ok = true // the background sender closes the channel with the transport's write error
				}
				if inactErr == nil && o.parentUsed {
					ok = true // the read loop's own Close(nil) after parent cancellation
				}
				if !ok {
					add("inactive-foreign-error", fmt.Sprintf("inactive carried %v which no Close call was given;%s", inactErr, ctxs))
				}
			}
			for _, c := range o.closes {
				if !c.returned {
					if x.Abnormal() == "" {
						add("close-never-returned/"+c.who, "Close call by "+c.who+" never returned;"+ctxs)
					}
					continue
				}
				if c.activeAft {
					add("active-after-close-returned", "IsActive() was still true after the Close call by "+c.who+" had returned;"+ctxs)
				}
				if ninact == 1 && (c.arg == inactErr || (c.arg != nil && errors.Is(inactErr, c.arg))) && c.ctxErrAft == nil {
					add("context-not-cancelled", "the Close call that took effect ("+c.who+") returned but the channel context was not cancelled;"+ctxs)
				}
			}
			return fs
		},
	}
}

func build(tier string) []*explore.Scenario {
	var scs []*explore.Scenario
	bound := 2
	if tier == "thorough" {
		bound = 3
	}
	sets := [][]string{
		{kUser1}, {kOnRead}, {kOnAct}, {kPeer}, {kWFail}, {kHolder}, {kParent},
		{kUser1, kUser2}, {kUser1, kOnRead}, {kUser1, kPeer}, {kUser1, kWFail}, {kUser1, kHolder}, {kOnRead, kHolder},
		{kOnAct, kUser1}, {kPeer, kWFail}, {kParent, kUser1}, {kHolder, kWFail}, {kOnRead, kPeer},
		{kUser1, kUser2, kOnRead}, {kUser1, kHolder, kPeer},
		{kUser1, kInactPanic}, {kPeer, kInactPanic}, {kOnRead, kInactPanic},
		{kReset}, {kReset, kWrap}, {kReset, kConsume}, {kReset, kWrap, kConsume}, {kReset, kWrap, kConsume, kUser1},
		{kPeer, kConsume}, {kPeer, kConsume, kUser1}, {kReset, kConsume, kWFail},
		{kUser1, kBuffered}, {kUser1, kWFail, kBuffered}, {kPeer, kWFail, kBuffered}, {kOnRead, kBuffered},
	}
	if tier == "thorough" {
		sets = append(sets, []string{kUser1, kUser2, kHolder}, []string{kOnRead, kWFail, kUser1}, []string{kParent, kHolder}, []string{kOnAct, kHolder, kUser1})
	}
	for _, cfg := range []hlib.ChanCfg{{0, false}, {2, true}, {1, false}} {
		for _, ks := range sets {
			s := scenario(cfg, ks, bound)
			if len(ks) >= 3 {
				s.Shards = 4
			}
			scs = append(scs, s)
		}
	}
	return scs
}

func main() {
	explore.Main(explore.Spec{
		Property:    "C05",
		Rule:        "all interleavings up to the preemption bound of 1..3 closers with distinct errors (user goroutines, ctx.Close inside HandleActive/HandleRead, peer close surfacing as an exception at the tail, failing Writev in the background sender, holder CloseAll, parent-context cancellation) against an in-flight writer and an inbound message; sync, aq(2,B), aq(1,N); distinct = distinct (handler event log, close results, transport log) observations",
		Assume:      []string{"sequentially consistent interleavings", "a Close argument is 'issued' by user code, by the tail handler (the exception it receives) or by the framework's own read-loop exit (nil) after parent cancellation"},
		Build:       build,
		MinOutcomes: 2,
	})
}
