//go:build verif

// C04: frame codecs round-trip or reject; boundaries exact under any fragmentation.
package main

import (
	"bytes"
	"encoding/binary"
	"encoding/json"
	"fmt"
	"io"
	"strings"

	netty "github.com/go-netty/go-netty"
	"github.com/go-netty/go-netty/codec/frame"
	"github.com/go-netty/go-netty/zz_verif/clib"
	"github.com/go-netty/go-netty/zz_verif/explore"
	"github.com/go-netty/go-netty/zz_verif/vsched"
)

type decCase struct {
	Cfg    clib.FrameCfg `json:"cfg"`
	Lens   []int         `json:"lens,omitempty"`   // body lengths (clib.Body pattern) ...
	Bodies []string      `json:"bodies,omitempty"` // ... or explicit bodies
	Cuts   []int         `json:"cuts"`
	Helper bool          `json:"helper"` // sink reads messages with utils.ToBytes instead of io.ReadAll
}

func (dc decCase) bodies() [][]byte {
	var bs [][]byte
	for k, n := range dc.Lens {
		bs = append(bs, clib.Body(k, n))
	}
	for _, s := range dc.Bodies {
		bs = append(bs, []byte(s))
	}
	return bs
}

// runDecode returns ("", "") or (key, message).
func runDecode(dc decCase) (string, string) {
	var stream []byte
	var ends []int
	var want [][]byte
	for _, b := range dc.bodies() {
		w, ok := dc.Cfg.RefFrame(b)
		if !ok {
			return "", ""
		}
		stream = append(stream, w...)
		ends = append(ends, len(stream))
		want = append(want, dc.Cfg.Expect(b))
	}
	res := clib.Decode(dc.Cfg.Decoder(), clib.Fragment(stream, dc.Cuts), false, dc.Helper, len(want)+4)
	desc := func() string {
		return fmt.Sprintf("%s, %d frames (body lengths %v), stream %d bytes cut at %v, helper=%v: delivered %s, exceptions %v", dc.Cfg, len(want), lensOf(dc.bodies()), len(stream), clipInts(dc.Cuts), dc.Helper, clib.Describe(res.Sink.Msgs), clipErrs(res.Sink.Exceptions))
	}
	if res.Panic != nil {
		return "panic-escaped/" + dc.Cfg.KeyClass(), desc() + fmt.Sprintf(": panic escaped the read loop: %v", res.Panic)
	}
	good := res.Sink.Good()
	for i, w := range want {
		if i >= len(good) {
			return "frame-missing/" + dc.Cfg.KeyClass(), desc() + fmt.Sprintf(": frame %d was never delivered", i)
		}
		if !bytes.Equal(good[i].Bytes, w) {
			k := "frame-content/"
			if dc.Helper {
				k = "frame-content(helper)/"
			}
			return k + dc.Cfg.KeyClass(), desc() + fmt.Sprintf(": frame %d differs from the payload (got %d bytes %q..., want %d bytes %q...)", i, len(good[i].Bytes), clipB(good[i].Bytes), len(w), clipB(w))
		}
		if good[i].Consumed != ends[i] {
			return "frame-boundary/" + dc.Cfg.KeyClass(), desc() + fmt.Sprintf(": after frame %d the decoder had consumed %d stream bytes, the frame ends at %d", i, good[i].Consumed, ends[i])
		}
	}
	if len(good) > len(want) {
		return "phantom-frame/" + dc.Cfg.KeyClass(), desc() + fmt.Sprintf(": %d messages delivered for %d frames", len(good), len(want))
	}
	return "", ""
}

func lensOf(bs [][]byte) []int {
	var l []int
	for _, b := range bs {
		l = append(l, len(b))
	}
	return l
}
func clipInts(c []int) []int {
	if len(c) > 12 {
		return c[:12]
	}
	return c
}
func clipErrs(e []error) []error {
	if len(e) > 3 {
		return e[:3]
	}
	return e
}
func clipB(b []byte) []byte {
	if len(b) > 24 {
		return b[:24]
	}
	return b
}

// fragmentations of a stream whose frame headers occupy the given [start,end) ranges.
func fragmentations(n int, headers [][2]int, f func(cuts []int)) {
	if n <= 12 {
		clib.Compositions(n, f)
		return
	}
	f(nil)
	if n <= 2100 {
		f(clib.Ones(n))
	}
	if n <= 300 {
		for c := 1; c < n; c++ {
			f([]int{c})
		}
	} else {
		seen := map[int]bool{}
		for _, h := range headers {
			for _, c := range []int{h[0] - 1, h[0], h[0] + 1, h[1] - 1, h[1], h[1] + 1} {
				if c > 0 && c < n && !seen[c] {
					seen[c] = true
					f([]int{c})
				}
			}
		}
	}
	// every pair of cuts inside / around the first two headers
	var pts []int
	for i, h := range headers {
		if i >= 2 {
			break
		}
		for c := h[0]; c <= h[1]+1; c++ {
			if c > 0 && c < n {
				pts = append(pts, c)
			}
		}
	}
	for i := 0; i < len(pts); i++ {
		for j := i + 1; j < len(pts); j++ {
			if pts[i] < pts[j] {
				f([]int{pts[i], pts[j]})
			}
		}
	}
}

func headersOf(cfg clib.FrameCfg, bodies [][]byte) (int, [][2]int) {
	pos := 0
	var hs [][2]int
	for _, b := range bodies {
		w, ok := cfg.RefFrame(b)
		if !ok {
			return 0, nil
		}
		hs = append(hs, [2]int{pos, pos + cfg.HeaderLen(b)})
		pos += len(w)
	}
	return pos, hs
}

func decodeAll(c *explore.EnumCtx, cfg clib.FrameCfg, lens []int, bodies []string, idx *int) {
	dc := decCase{Cfg: cfg, Lens: lens, Bodies: bodies}
	n, hs := headersOf(cfg, dc.bodies())
	if hs == nil {
		return
	}
	fragmentations(n, hs, func(cuts []int) {
		if c.Expired() {
			return
		}
		*idx++
		d := dc
		d.Cuts = cuts
		d.Helper = *idx%2 == 1
		k, m := runDecode(d)
		c.Case(fmt.Sprint(cfg, lens, bodies, cuts), len(cuts) > 0, func() any { return d })
		c.Count(0, 1)
		if k != "" {
			c.Fail(k, m, d)
		}
	})
}

var smallLens = []int{0, 1, 2, 127, 128, 254, 255, 256, 1023, 1024, 1025}
var bigLens = []int{65534, 65535, 65536, 65537}

func lengthFieldDecoders(thorough bool) *explore.Scenario {
	return &explore.Scenario{
		Name:   "decode/length-field(all configurations, reference-encoded)",
		Shards: 16,
		Enum: func(c *explore.EnumCtx) {
			vsched.Run(vsched.Config{MaxSteps: 1 << 60}, func() {
				idx := 0
				for _, w := range []int{1, 2, 4, 8} {
					for _, little := range []bool{false, true} {
						for _, off := range []int{0, 1, 3} {
							for _, adj := range []int{-2, 0, 2, -w} {
								for _, strip := range []int{0, off + w, off + w + 1} {
									if !c.Mine() {
										continue
									}
									cfg := clib.FrameCfg{Kind: "lengthfield", W: w, Little: little, Off: off, Adj: adj, Strip: strip, Max: 70000}
									for _, l := range smallLens {
										decodeAll(c, cfg, []int{l, 3, 0}, nil, &idx)
										if thorough {
											decodeAll(c, cfg, []int{2, l, l}, nil, &idx)
										}
									}
									if off == 0 && (adj == 0 || adj == -w) {
										for _, l := range bigLens {
											decodeAll(c, cfg, []int{l, 1}, nil, &idx)
										}
									}
									// maximum-frame boundary: frames of total length max-1 and max are admitted
									tight := cfg
									tight.Max = off + w + 12
									if adj <= 0 || true {
										decodeAll(c, tight, []int{11, 12, 11}, nil, &idx)
									}
								}
							}
						}
					}
				}
			})
		},
		Replay: replayDecode,
	}
}

func replayDecode(c *explore.EnumCtx, desc json.RawMessage) {
	var dc decCase
	json.Unmarshal(desc, &dc)
	vsched.Run(vsched.Config{MaxSteps: 1 << 60}, func() {
		if k, m := runDecode(dc); k != "" {
			c.Fail(k, m, dc)
		}
	})
}

func otherDecoders(thorough bool) *explore.Scenario {
	return &explore.Scenario{
		Name:   "decode/prepender-pairs,varint,delimiter,fixed",
		Shards: 8,
		Enum: func(c *explore.EnumCtx) {
			vsched.Run(vsched.Config{MaxSteps: 1 << 60}, func() {
				idx := 0
				for _, w := range []int{1, 2, 4, 8} {
					for _, little := range []bool{false, true} {
						for _, adj := range []int{-2, 0, 2} {
							for _, incl := range []bool{false, true} {
								if !c.Mine() {
									continue
								}
								cfg := clib.FrameCfg{Kind: "prepender", W: w, Little: little, Adj: adj, Incl: incl, Max: 70000}
								for _, l := range smallLens {
									decodeAll(c, cfg, []int{l, 3, 0}, nil, &idx)
								}
								if little == false && adj == 0 {
									for _, l := range bigLens {
										decodeAll(c, cfg, []int{l, 1}, nil, &idx)
									}
								}
							}
						}
					}
				}
				for _, max := range []int{1, 127, 128, 16384, 70000} {
					if !c.Mine() {
						continue
					}
					cfg := clib.FrameCfg{Kind: "varint", Max: max}
					for _, l := range append(append([]int{}, smallLens...), 16383, 16384, max-1, max) {
						if l >= 0 {
							decodeAll(c, cfg, []int{l, 3, 0}, nil, &idx)
						}
					}
					if max == 70000 {
						for _, l := range bigLens {
							decodeAll(c, cfg, []int{l, 1}, nil, &idx)
						}
					}
				}
				// delimiter: every body over a small alphabet (incl. proper prefixes of the delimiter) up to length 3, two frames
				for _, delim := range []string{"\n", "\r\n", "aab"} {
					alpha := []byte{'x', delim[0]}
					if len(delim) > 1 && delim[1] != delim[0] {
						alpha = append(alpha, delim[1])
					}
					var bodies []string
					var gen func(cur string)
					gen = func(cur string) {
						bodies = append(bodies, cur)
						if len(cur) == 3 {
							return
						}
						for _, a := range alpha {
							gen(cur + string(a))
						}
					}
					gen("")
					for _, stripD := range []bool{true, false} {
						for _, max := range []int{8, 4096} {
							cfg := clib.FrameCfg{Kind: "delimiter", Delim: delim, StripD: stripD, Max: max}
							for _, b1 := range bodies {
								if !c.Mine() {
									continue
								}
								for _, b2 := range []string{"", "x", bodies[len(bodies)-1]} {
									decodeAll(c, cfg, nil, []string{b1, b2}, &idx)
								}
							}
							for _, l := range []int{max - len(delim) - 1, max - len(delim), 1024, 1025} {
								if l >= 0 && l+len(delim) <= max && c.Mine() {
									decodeAll(c, cfg, []int{l, 2}, nil, &idx)
								}
							}
						}
					}
				}
				for _, n := range []int{1, 4, 1024, 1025} {
					if !c.Mine() {
						continue
					}
					cfg := clib.FrameCfg{Kind: "fixed", N: n}
					decodeAll(c, cfg, []int{n, n, n}, nil, &idx)
					decodeAll(c, cfg, []int{n}, nil, &idx)
				}
			})
		},
		Replay: replayDecode,
	}
}

// ---------------------------------------------------------------- encoders

type encCase struct {
	Cfg     clib.FrameCfg `json:"cfg"`
	Len     int           `json:"len"`
	Carrier string        `json:"carrier"`
}

type plainReader struct{ r io.Reader }

func (p plainReader) Read(b []byte) (int, error) { return p.r.Read(b) }

var carriers = []string{"[]byte", "string", "*bytes.Buffer", "*bytes.Reader", "*strings.Reader", "io.Reader", "[][]byte"}

func carry(kind string, b []byte) any {
	switch kind {
	case "string":
		return string(b)
	case "*bytes.Buffer":
		return bytes.NewBuffer(append([]byte{}, b...))
	case "*bytes.Reader":
		return bytes.NewReader(b)
	case "*strings.Reader":
		return strings.NewReader(string(b))
	case "io.Reader":
		return plainReader{bytes.NewReader(b)}
	case "[][]byte":
		h := len(b) / 2
		return [][]byte{b[:h], b[h:]}
	}
	return b
}

func runEncode(ec encCase) (string, string) {
	// the payload lies inside a larger array of the caller (a message carved out of a receive buffer: the
	// next payload starts right behind it, within the slice's spare capacity)
	arena := append(append(bytes.Repeat([]byte{0xA5}, 8), clib.Body(1, ec.Len)...), bytes.Repeat([]byte{0x5A}, 8)...)
	before := append([]byte{}, arena...)
	body := arena[8 : 8+ec.Len]
	enc := ec.Cfg.Encoder()
	wire, exc, _ := clib.Encode(enc, carry(ec.Carrier, body))
	desc := fmt.Sprintf("%s encoding a %d-byte %s", ec.Cfg, ec.Len, ec.Carrier)
	if !bytes.Equal(arena, before) {
		return "encoder-modifies-caller-memory/" + ec.Cfg.KeyClass() + "/" + ec.Carrier, desc + ": the caller's array around / under the payload was changed by the encoder (the next payload carved from the same array would be corrupted)"
	}
	ref, admitted := ec.Cfg.RefFrame(body)
	if admitted {
		if len(exc) > 0 {
			return "encoder-rejects-admitted/" + ec.Cfg.KeyClass(), desc + fmt.Sprintf(": raised %v", exc[0])
		}
		if !bytes.Equal(wire, ref) {
			return "encoder-wrong-frame/" + ec.Cfg.KeyClass() + "/" + ec.Carrier, desc + fmt.Sprintf(": emitted %d bytes %x..., reference frame %d bytes %x...", len(wire), clipB(wire), len(ref), clipB(ref))
		}
		return "", ""
	}
	// not admitted (length does not fit the field / exceeds the maximum): must fail, and
	// must not emit a frame whose header disagrees with its body
	if ec.Cfg.Kind == "delimiter" || ec.Cfg.Kind == "fixed" {
		return "", ""
	}
	if len(wire) > 0 {
		return "encoder-header-disagrees/" + ec.Cfg.KeyClass(), desc + fmt.Sprintf(": the payload does not fit the configuration but a frame was emitted (%d bytes, header %x) instead of an exception", len(wire), clipB(wire))
	}
	if len(exc) == 0 {
		return "encoder-silent/" + ec.Cfg.KeyClass(), desc + ": nothing emitted and no exception raised"
	}
	return "", ""
}

func encoders() *explore.Scenario {
	return &explore.Scenario{
		Name:   "encode/all encoders x boundary lengths x carriers",
		Shards: 8,
		Enum: func(c *explore.EnumCtx) {
			vsched.Run(vsched.Config{MaxSteps: 1 << 60}, func() {
				var cfgs []clib.FrameCfg
				for _, w := range []int{1, 2, 4, 8} {
					for _, little := range []bool{false, true} {
						cfgs = append(cfgs, clib.FrameCfg{Kind: "lengthfield", W: w, Little: little, Max: 70000})
						for _, adj := range []int{-2, 0, 2} {
							for _, incl := range []bool{false, true} {
								cfgs = append(cfgs, clib.FrameCfg{Kind: "prepender", W: w, Little: little, Adj: adj, Incl: incl, Max: 1 << 30})
							}
						}
					}
				}
				for _, max := range []int{1, 127, 128, 16384, 70000} {
					cfgs = append(cfgs, clib.FrameCfg{Kind: "varint", Max: max})
				}
				cfgs = append(cfgs, clib.FrameCfg{Kind: "delimiter", Delim: "\n", StripD: true, Max: 70000}, clib.FrameCfg{Kind: "delimiter", Delim: "\r\n", StripD: false, Max: 70000}, clib.FrameCfg{Kind: "fixed", N: 4})
				lens := append(append([]int{}, smallLens...), 3, 4, 16383, 16384, 16385, 65533, 65534, 65535, 65536, 65537)
				for _, cfg := range cfgs {
					if !c.Mine() {
						continue
					}
					for _, l := range lens {
						for ci, car := range carriers {
							if l > 2000 && ci > 1 && ci < 6 {
								continue // large bodies: []byte, string and [][]byte carriers
							}
							if c.Expired() {
								return
							}
							if cfg.Kind == "fixed" && car == "string" {
								continue // the fixed-length codec passes messages through; a bare string is not a head-of-pipeline type
							}
							ec := encCase{cfg, l, car}
							k, m := runEncode(ec)
							c.Case(fmt.Sprint(cfg, l, car), true, func() any { return ec })
							c.Count(0, 1)
							if k != "" {
								c.Fail(k, m, ec)
							}
						}
					}
				}
			})
		},
		Replay: func(c *explore.EnumCtx, desc json.RawMessage) {
			var ec encCase
			json.Unmarshal(desc, &ec)
			vsched.Run(vsched.Config{MaxSteps: 1 << 60}, func() {
				if k, m := runEncode(ec); k != "" {
					c.Fail(k, m, ec)
				}
			})
		},
	}
}

// pack: 4/8-byte capacities cannot be reached with materialised bodies; check the
// packing function itself with synthetic lengths.
func pack() *explore.Scenario {
	type pc struct {
		W int   `json:"w"`
		V int64 `json:"v"`
	}
	check := func(c *explore.EnumCtx, w int, v int64) {
		var out []byte
		panicked := false
		func() {
			defer func() { panicked = recover() != nil }()
			out = frame.VerifPackFieldLength(binary.BigEndian, w, v)
		}()
		fits := v >= 0 && (w == 8 || uint64(v) <= 1<<(8*uint(w))-1)
		c.Case(fmt.Sprint("pack", w, v), true, func() any { return pc{w, v} })
		c.Count(0, 1)
		if fits {
			if panicked || frame.VerifUnpackFieldLength(binary.BigEndian, w, out) != v {
				c.Fail(fmt.Sprintf("pack-roundtrip/w=%d", w), fmt.Sprintf("length %d does not survive a %d-byte field (panicked=%v, bytes %x)", v, w, panicked, out), pc{w, v})
			}
		} else if !panicked {
			c.Fail(fmt.Sprintf("pack-overflow/w=%d", w), fmt.Sprintf("length %d does not fit a %d-byte field but was packed as %x without an error", v, w, out), pc{w, v})
		}
	}
	return &explore.Scenario{
		Name: "pack/length-field capacity boundaries",
		Enum: func(c *explore.EnumCtx) {
			for _, w := range []int{1, 2, 4, 8} {
				for _, v := range []int64{-1 << 63, -65536, -2, -1, 0, 1, 254, 255, 256, 257, 65534, 65535, 65536, 65537, 1<<31 - 1, 1 << 31, 1<<32 - 2, 1<<32 - 1, 1 << 32, 1<<32 + 1, 1<<62 - 1, 1 << 62, 1<<63 - 1} {
					check(c, w, v)
				}
			}
		},
	}
}

// variable-length codec: not a framing codec - every transport read is delivered as one message of
// at most maxReadLength bytes; the concatenation of the deliveries must be the stream.
type vcase struct {
	Max  int   `json:"max"`
	N    int   `json:"n"`
	Cuts []int `json:"cuts"`
}

func runVariable(vc vcase) (string, string) {
	stream := clib.Body(3, vc.N)
	res := clib.Decode([]netty.Handler{frame.VariableLengthCodec(vc.Max)}, clib.Fragment(stream, vc.Cuts), false, false, vc.N+8)
	var got []byte
	for _, m := range res.Sink.Good() {
		if len(m.Bytes) > vc.Max {
			return "variable-length/oversized", fmt.Sprintf("VariableLengthCodec(%d): delivered a %d-byte message", vc.Max, len(m.Bytes))
		}
		if len(m.Bytes) == 0 {
			return "variable-length/empty-message", fmt.Sprintf("VariableLengthCodec(%d): delivered an empty message (stream %d bytes cut at %v)", vc.Max, vc.N, vc.Cuts)
		}
		got = append(got, m.Bytes...)
	}
	if !bytes.Equal(got, stream) || res.Panic != nil || !res.Closed {
		return "variable-length/stream", fmt.Sprintf("VariableLengthCodec(%d) on a %d-byte stream cut at %v: deliveries concatenate to %d bytes %q (panic %v, closed %v)", vc.Max, vc.N, vc.Cuts, len(got), clipB(got), res.Panic, res.Closed)
	}
	return "", ""
}

func variable() *explore.Scenario {
	return &explore.Scenario{
		Name: "decode/variable-length (pass-through) x all fragmentations",
		Enum: func(c *explore.EnumCtx) {
			vsched.Run(vsched.Config{MaxSteps: 1 << 60}, func() {
				for _, max := range []int{1, 3, 4, 64} {
					for n := 1; n <= 10; n++ {
						clib.Compositions(n, func(cuts []int) {
							if c.Expired() {
								return
							}
							vc := vcase{max, n, cuts}
							k, m := runVariable(vc)
							c.Case(fmt.Sprint(vc), true, func() any { return vc })
							c.Count(0, 1)
							if k != "" {
								c.Fail(k, m, vc)
							}
						})
					}
				}
			})
		},
		Replay: func(c *explore.EnumCtx, desc json.RawMessage) {
			var vc vcase
			json.Unmarshal(desc, &vc)
			vsched.Run(vsched.Config{MaxSteps: 1 << 60}, func() {
				if k, m := runVariable(vc); k != "" {
					c.Fail(k, m, vc)
				}
			})
		},
	}
}

func build(tier string) []*explore.Scenario {
	th := tier == "thorough"
	return []*explore.Scenario{lengthFieldDecoders(th), otherDecoders(th), encoders(), pack(), variable()}
}

func main() {
	explore.Main(explore.Spec{
		Property:    "C04",
		Rule:        "decoders: every length-field configuration (width 1/2/4/8 x byte order x offset 0/1/3 x adjustment -2/0/+2/-width x strip 0/header/header+1, plus a tight maximum), prepender/decoder pairs (adjustment x includes-length), varint (5 maxima), delimiter (3 delimiters x strip x max, every body over a small alphabet incl. proper delimiter prefixes), fixed length; 2-3 frames back to back with boundary body lengths 0..65537; fragmentations: all 2^(n-1) compositions for streams <= 12 bytes, else whole / 1-byte reads / every single cut / every pair of cuts in the first two headers; driven through the real channel read loop (inline executor) over the scripted transport; oracle: delivered messages (read with io.ReadAll and, alternately, the shipped utils.ToBytes helper) equal the reference payloads in order and the bytes consumed after each frame equal the frame end. Encoders: every shipped encoder x boundary lengths x 7 carriers against an independent reference encoder; payloads that do not fit must raise an exception and emit nothing. distinct = distinct (configuration, payloads, fragmentation) cases with at least one cut",
		Assume:      []string{"bodies >= 4 GiB are not materialised: 4/8-byte capacity boundaries are checked on the packing function", "zero-length successful reads are not part of the fragmentation alphabet"},
		Build:       build,
		QuickBudget: 0,
	})
}
