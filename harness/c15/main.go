//go:build verif

// C15: HTTP server codec - one well-formed response per request, in order.
package main

import (
	"bufio"
	"bytes"
	"context"
	"encoding/json"
	"fmt"
	"io"
	"net/http"
	"strings"

	netty "github.com/go-netty/go-netty"
	"github.com/go-netty/go-netty/codec/xhttp"
	"github.com/go-netty/go-netty/zz_verif/clib"
	"github.com/go-netty/go-netty/zz_verif/explore"
	"github.com/go-netty/go-netty/zz_verif/hlib"
	"github.com/go-netty/go-netty/zz_verif/mock"
	"github.com/go-netty/go-netty/zz_verif/vsched"
)

// ---------------------------------------------------------------- requests

type reqSpec struct {
	Kind  string `json:"kind"`  // "GET" | "POST0" | "POST5" | "POSTchunked" | "POSTsmuggle"
	Proto string `json:"proto"` // "1.1" | "1.0"
	Conn  string `json:"conn"`  // "" | "close" | "keep-alive"
}

func (r reqSpec) bytes(i int) []byte {
	var b bytes.Buffer
	method, target := "GET", fmt.Sprintf("/get/%d?q=%d", i, i)
	body, hdr := "", ""
	switch r.Kind {
	case "POST0":
		method, target, hdr = "POST", fmt.Sprintf("/post0/%d", i), "Content-Length: 0\r\n"
	case "POST5":
		method, target, body = "POST", fmt.Sprintf("/post5/%d", i), "hello"
		hdr = "Content-Length: 5\r\n"
	case "POSTsmuggle":
		method, target, body = "POST", fmt.Sprintf("/smuggle/%d", i), "GET /smuggled HTTP/1.1\r\nHost: evil\r\n\r\n"
		hdr = fmt.Sprintf("Content-Length: %d\r\n", len(body))
	case "POSTchunked":
		method, target, body = "POST", fmt.Sprintf("/chunked/%d", i), "3\r\nhel\r\n2\r\nlo\r\n0\r\n\r\n"
		hdr = "Transfer-Encoding: chunked\r\n"
	}
	fmt.Fprintf(&b, "%s %s HTTP/%s\r\nHost: example.test\r\nX-Seq: %d\r\n%s", method, target, r.Proto, i, hdr)
	if r.Conn != "" {
		fmt.Fprintf(&b, "Connection: %s\r\n", r.Conn)
	}
	b.WriteString("\r\n")
	b.WriteString(body)
	return b.Bytes()
}

// asksClose follows net/http's own reading of the request (the reference parser decides).
type refReq struct {
	Method, URI, Proto string
	Header             http.Header
	Body               []byte
	Close              bool
}

func refParse(stream []byte) []refReq {
	var out []refReq
	br := bufio.NewReader(bytes.NewReader(stream))
	for {
		r, err := http.ReadRequest(br)
		if err != nil {
			return out
		}
		body, _ := io.ReadAll(r.Body)
		out = append(out, refReq{r.Method, r.RequestURI, r.Proto, r.Header, body, r.Close})
	}
}

// ---------------------------------------------------------------- handler programs

type prog struct {
	Status  int    `json:"status"`  // 0 = implicit
	Delim   string `json:"delim"`   // "cl" | "chunked" | "none"
	Writes  []int  `json:"writes"`  // body pieces
	Flush   string `json:"flush"`   // "" | "end" | "middle"
	Consume string `json:"consume"` // "none" | "half" | "all"
}

func (p prog) total() int {
	n := 0
	for _, w := range p.Writes {
		n += w
	}
	return n
}

func bodyBytes(seq, n int) []byte {
	b := make([]byte, n)
	for i := range b {
		b[i] = byte('a' + (seq*7+i)%26)
	}
	return b
}

type seen struct {
	Method, URI, Proto string
	Header             http.Header
	Body               []byte
	BodyRead           string
	HandlerPanic       any
}

type recorder struct {
	p     prog
	seen  []seen
	pause func() // scheduling point inside the handler (E1 scenarios)
}

func (rc *recorder) ServeHTTP(w http.ResponseWriter, r *http.Request) {
	idx := len(rc.seen)
	s := seen{Method: r.Method, URI: r.RequestURI, Proto: r.Proto, Header: r.Header.Clone(), BodyRead: rc.p.Consume}
	switch rc.p.Consume {
	case "all":
		s.Body, _ = io.ReadAll(r.Body)
	case "half":
		buf := make([]byte, 2)
		n, _ := io.ReadFull(r.Body, buf)
		s.Body = buf[:n]
	}
	rc.seen = append(rc.seen, s)
	p := rc.p
	w.Header().Set("X-Reply", fmt.Sprint(idx))
	switch p.Delim {
	case "cl":
		w.Header().Set("Content-Length", fmt.Sprint(p.total()))
	case "chunked":
		w.Header().Set("Transfer-Encoding", "chunked")
	}
	if p.Status != 0 {
		w.WriteHeader(p.Status)
	}
	off := 0
	full := bodyBytes(idx, p.total())
	for i, n := range p.Writes {
		w.Write(full[off : off+n])
		off += n
		if rc.pause != nil {
			rc.pause()
		}
		if p.Flush == "middle" && i == 0 {
			w.(http.Flusher).Flush()
		}
	}
	if p.Flush == "end" {
		w.(http.Flusher).Flush()
	}
}

// ---------------------------------------------------------------- one sequential run

type hcase struct {
	Reqs []reqSpec `json:"reqs"`
	Prog prog      `json:"prog"`
	Cuts []int     `json:"cuts"`
}

func judge(hc hcase, stream []byte, rc *recorder, t *mock.Transport, keyPrefix string) (string, string) {
	ref := refParse(stream)
	desc := func() string {
		var rs []string
		for _, r := range hc.Reqs {
			rs = append(rs, fmt.Sprintf("%s/%s/%s", r.Kind, r.Proto, r.Conn))
		}
		return fmt.Sprintf("requests [%s] cut at %v, handler %+v: handler saw %d requests, wire %d bytes, log %s", strings.Join(rs, " "), hc.Cuts, hc.Prog, len(rc.seen), len(t.Wire()), clipS(t.LogString(), 300))
	}
	p := hc.Prog
	selfDelimiting := p.Delim != "none"
	// how many requests must be served: up to and including the first one after which the connection must close
	expectServed := len(ref)
	for i, r := range ref {
		if r.Close || !selfDelimiting {
			expectServed = i + 1
			break
		}
	}
	if len(rc.seen) > expectServed {
		why := "the response is not self-delimiting"
		if expectServed-1 < len(ref) && ref[expectServed-1].Close {
			why = "the request asked to close"
		}
		if len(rc.seen) > len(ref) {
			return keyPrefix + "phantom-request", desc() + fmt.Sprintf(": the handler was invoked %d times for %d requests (extra request %s %s)", len(rc.seen), len(ref), rc.seen[len(ref)].Method, rc.seen[len(ref)].URI)
		}
		return keyPrefix + "kept-open", desc() + fmt.Sprintf(": the connection was kept open after response %d although %s", expectServed-1, why)
	}
	if len(rc.seen) < expectServed {
		k := keyPrefix + "request-lost"
		if p.Flush != "" {
			k += "/after-explicit-flush(" + p.Flush + ")"
		} else if p.Consume != "all" {
			k += "/body-" + p.Consume + "-read"
		}
		return k, desc() + fmt.Sprintf(": %d requests arrived (%d to be served before the connection may close) but the handler was invoked %d times", len(ref), expectServed, len(rc.seen))
	}
	for i, s := range rc.seen {
		r := ref[i]
		if s.Method != r.Method || s.URI != r.URI || s.Proto != r.Proto || s.Header.Get("X-Seq") != r.Header.Get("X-Seq") || s.Header.Get("Host") != r.Header.Get("Host") && false {
			return keyPrefix + "request-mismatch", desc() + fmt.Sprintf(": invocation %d saw %s %s %s seq=%s, the reference parser reads %s %s %s seq=%s", i, s.Method, s.URI, s.Proto, s.Header.Get("X-Seq"), r.Method, r.URI, r.Proto, r.Header.Get("X-Seq"))
		}
		if s.BodyRead == "all" && !bytes.Equal(s.Body, r.Body) {
			return keyPrefix + "request-body", desc() + fmt.Sprintf(": invocation %d read body %q, the request carries %q", i, s.Body, r.Body)
		}
		if s.BodyRead == "half" && !bytes.HasPrefix(r.Body, s.Body) {
			return keyPrefix + "request-body", desc() + fmt.Sprintf(": invocation %d read %q which is not a prefix of %q", i, s.Body, r.Body)
		}
	}
	// responses
	wire := t.Wire()
	br := bufio.NewReader(bytes.NewReader(wire))
	for i := range rc.seen {
		req := &http.Request{Method: rc.seen[i].Method}
		resp, err := http.ReadResponse(br, req)
		if err != nil {
			k := keyPrefix + "response-unparseable"
			if p.Flush != "" {
				k += "/explicit-flush(" + p.Flush + ")"
			}
			return k, desc() + fmt.Sprintf(": response %d cannot be parsed: %v (wire %q)", i, err, clipS(string(wire), 200))
		}
		body, err := io.ReadAll(resp.Body)
		wantStatus := p.Status
		if wantStatus == 0 {
			wantStatus = 200
		}
		if resp.StatusCode != wantStatus {
			return keyPrefix + "response-status", desc() + fmt.Sprintf(": response %d has status %d, handler set %d", i, resp.StatusCode, wantStatus)
		}
		if resp.Header.Get("X-Reply") != fmt.Sprint(i) {
			return keyPrefix + "response-order", desc() + fmt.Sprintf(": response %d carries X-Reply=%q (responses out of order or headers lost)", i, resp.Header.Get("X-Reply"))
		}
		if err != nil || !bytes.Equal(body, bodyBytes(i, p.total())) {
			k := keyPrefix + "response-body"
			if p.Flush != "" {
				k += "/explicit-flush(" + p.Flush + ")"
			}
			return k, desc() + fmt.Sprintf(": response %d body is %d bytes (err %v), handler wrote %d", i, len(body), err, p.total())
		}
		if resp.ProtoMajor != 1 || fmt.Sprintf("HTTP/%d.%d", resp.ProtoMajor, resp.ProtoMinor) != rc.seen[i].Proto {
			return keyPrefix + "response-proto", desc() + fmt.Sprintf(": response %d is %s for a %s request", i, resp.Proto, rc.seen[i].Proto)
		}
	}
	if rest, _ := io.ReadAll(br); len(rest) > 0 {
		return keyPrefix + "extra-response-bytes", desc() + fmt.Sprintf(": %d bytes follow the last response: %q", len(rest), clipS(string(rest), 80))
	}
	// closing: after (never before) the last response was written and flushed
	ci := hlib.FirstClose(t)
	if ci < 0 {
		return keyPrefix + "not-closed", desc() + ": the connection was never closed although the peer closed / a close was due"
	}
	lastW, lastF := -1, -1
	for i, e := range t.Log {
		if (e.Kind == 'W' || e.Kind == 'V') && !e.Failed {
			lastW = i
		}
		if e.Kind == 'F' && !e.Failed {
			lastF = i
		}
		if (e.Kind == 'W' || e.Kind == 'V') && e.Closed {
			return keyPrefix + "closed-before-response", desc() + ": response bytes were written after the transport had been closed"
		}
	}
	if lastW > ci || (lastW >= 0 && lastF < lastW) {
		return keyPrefix + "closed-before-flush", desc() + ": the transport was closed before the last response had been written and flushed"
	}
	return "", ""
}

func clipS(s string, n int) string {
	if len(s) > n {
		return s[:n] + "..."
	}
	return s
}

func streamOf(reqs []reqSpec) []byte {
	var stream []byte
	for i, r := range reqs {
		stream = append(stream, r.bytes(i)...)
	}
	return stream
}

func runSeq(hc hcase) (string, string) {
	stream := streamOf(hc.Reqs)
	rc := &recorder{p: hc.Prog}
	t := mock.NewTransport("http")
	for _, f := range clib.Fragment(stream, hc.Cuts) {
		if len(f) > 0 {
			t.In = append(t.In, f)
		}
	}
	t.EOFAtEnd = true
	pl := netty.NewPipeline()
	pl.AddLast(xhttp.ServerCodec(), xhttp.Handler(rc))
	ch := netty.NewChannel()(1, context.Background(), pl, t, clib.Inline{})
	var escaped any
	func() {
		defer func() { escaped = recover() }()
		pl.ServeChannel(ch)
	}()
	if escaped != nil {
		return "panic-escaped", fmt.Sprintf("a panic escaped the read loop: %v", escaped)
	}
	return judge(hc, stream, rc, t, "")
}

func progs(thorough bool) []prog {
	var ps []prog
	writeSets := [][]int{{}, {0}, {14}, {2047}, {2048}, {2049}, {5000}, {14, 14}, {2047, 1}, {2048, 1}, {1, 2048}, {5000, 5000}, {0, 14}}
	if !thorough {
		writeSets = [][]int{{}, {14}, {2047}, {2048}, {2049}, {5000}, {14, 14}, {2047, 1}, {1, 2048}}
	}
	for _, st := range []int{0, 200, 404} {
		for _, d := range []string{"cl", "chunked", "none"} {
			for _, ws := range writeSets {
				for _, fl := range []string{"", "end", "middle"} {
					if fl == "middle" && len(ws) < 2 {
						continue
					}
					for _, co := range []string{"none", "half", "all"} {
						if !thorough && st == 200 && (co == "half" || fl == "middle") {
							continue
						}
						ps = append(ps, prog{st, d, ws, fl, co})
					}
				}
			}
		}
	}
	return ps
}

func reqSeqs(thorough bool) [][]reqSpec {
	var singles []reqSpec
	for _, k := range []string{"GET", "POST0", "POST5", "POSTchunked", "POSTsmuggle"} {
		for _, pr := range []string{"1.1", "1.0"} {
			if pr == "1.0" && k == "POSTchunked" {
				continue
			}
			for _, cn := range []string{"", "close", "keep-alive"} {
				singles = append(singles, reqSpec{k, pr, cn})
			}
		}
	}
	var seqs [][]reqSpec
	for _, s := range singles {
		seqs = append(seqs, []reqSpec{s})
	}
	keep := []reqSpec{{"GET", "1.1", ""}, {"POST5", "1.1", ""}, {"POSTchunked", "1.1", "keep-alive"}, {"POSTsmuggle", "1.1", ""}, {"POST0", "1.0", "keep-alive"}, {"GET", "1.1", "close"}, {"POST5", "1.0", ""}}
	for _, a := range keep {
		for _, b := range keep {
			seqs = append(seqs, []reqSpec{a, b})
		}
	}
	seqs = append(seqs,
		[]reqSpec{{"POST5", "1.1", ""}, {"GET", "1.1", ""}, {"POSTchunked", "1.1", "close"}},
		[]reqSpec{{"GET", "1.1", "keep-alive"}, {"POSTsmuggle", "1.1", ""}, {"GET", "1.0", ""}},
		[]reqSpec{{"POSTchunked", "1.1", ""}, {"POST0", "1.1", ""}, {"POST5", "1.1", "close"}},
	)
	return seqs
}

func sequential(thorough bool) *explore.Scenario {
	return &explore.Scenario{
		Name:   "sequential: request sequences x fragmentations x handler programs (sync channel)",
		Shards: 16,
		Enum: func(c *explore.EnumCtx) {
			vsched.Run(vsched.Config{MaxSteps: 1 << 60}, func() {
				ps := progs(thorough)
				for _, reqs := range reqSeqs(thorough) {
					stream := streamOf(reqs)
					var frags [][]int
					frags = append(frags, nil, clib.Ones(len(stream)))
					step := 1
					if !thorough {
						step = 5
					}
					for cut := 1; cut < len(stream); cut += step {
						frags = append(frags, []int{cut})
					}
					has10 := false
					for _, r := range reqs {
						if r.Proto == "1.0" {
							has10 = true
						}
					}
					for pi, p := range ps {
						if !c.Mine() {
							continue
						}
						if has10 && p.Delim == "chunked" {
							continue // chunked responses are not admissible for HTTP/1.0 requests (not a self-consistent program)
						}
						// every program with whole and 1-byte reads; single cuts are spread over the programs
						fs := [][]int{nil, frags[1]}
						for k := 2 + pi%7; k < len(frags); k += 7 {
							fs = append(fs, frags[k])
						}
						for _, cuts := range fs {
							if c.Expired() {
								return
							}
							hc := hcase{reqs, p, cuts}
							k, m := runSeq(hc)
							c.Case(fmt.Sprint(hc), true, func() any { return hc })
							c.Count(0, 1)
							if k != "" {
								c.Fail(k, m, hc)
							}
						}
					}
				}
			})
		},
		Replay: func(c *explore.EnumCtx, desc json.RawMessage) {
			var hc hcase
			json.Unmarshal(desc, &hc)
			vsched.Run(vsched.Config{MaxSteps: 1 << 60}, func() {
				if k, m := runSeq(hc); k != "" {
					c.Fail(k, m, hc)
				}
			})
		},
	}
}

// ---------------------------------------------------------------- E1: queued channel, close ordering, two connections

type conn struct {
	reqs   []reqSpec
	stream []byte
	rc     *recorder
	env    *hlib.Env
}

type eobs struct {
	conns []*conn
}

func queued(name string, cfg hlib.ChanCfg, plans [][]reqSpec, p prog, bound int) *explore.Scenario {
	return queuedShared(name, cfg, plans, p, bound, false)
}

// queuedShared: with shared, ONE adapter instance (xhttp.Handler(h)) serves every connection, the way an
// application that builds its handlers once and adds them to each new pipeline uses it; h tells the
// connections apart by the Host header.
func queuedShared(name string, cfg hlib.ChanCfg, plans [][]reqSpec, p prog, bound int, shared bool) *explore.Scenario {
	return &explore.Scenario{
		Name:  fmt.Sprintf("queued/%s/%s/%d connections/%+v", cfg, name, len(plans), p),
		Bound: bound,
		Cache: true,
		Cfg:   vsched.Config{MaxSteps: 20000},
		Init:  func() any { return &eobs{} },
		Body: func(v any) {
			o := v.(*eobs)
			var adapter netty.Handler
			if shared {
				adapter = xhttp.Handler(http.HandlerFunc(func(w http.ResponseWriter, r *http.Request) {
					var k int
					fmt.Sscanf(r.Host, "conn%d.test", &k)
					o.conns[k].rc.ServeHTTP(w, r)
				}))
			}
			for i, reqs := range plans {
				cn := &conn{reqs: reqs, stream: streamOf(reqs)}
				if shared {
					cn.stream = bytes.ReplaceAll(cn.stream, []byte("Host: example.test"), []byte(fmt.Sprintf("Host: conn%d.test", i)))
				}
				cn.rc = &recorder{p: p, pause: func() { vsched.Yield("handler between writes") }}
				o.conns = append(o.conns, cn)
				t := mock.NewTransport(fmt.Sprintf("c%d", i))
				t.In = [][]byte{cn.stream}
				t.EOFAtEnd = true
				pl := netty.NewPipeline()
				if shared {
					pl.AddLast(xhttp.ServerCodec(), adapter)
				} else {
					pl.AddLast(xhttp.ServerCodec(), xhttp.Handler(cn.rc))
				}
				cn.env = &hlib.Env{T: t, PL: pl}
				cn.env.Ch = cfg.Factory()(int64(i+1), context.Background(), pl, t, netty.AsyncExecutor())
				pl.ServeChannel(cn.env.Ch) // returns once active was delivered; the read loop keeps running
			}
		},
		Outcome: func(x *vsched.Exec, v any) string {
			o := v.(*eobs)
			s := ""
			for _, cn := range o.conns {
				if cn.env != nil {
					s += fmt.Sprintf("%d/%d/%s ", len(cn.rc.seen), len(cn.env.T.Wire()), clipS(cn.env.T.LogString(), 120))
				}
			}
			return s
		},
		Check: func(x *vsched.Exec, v any) []explore.Finding {
			o := v.(*eobs)
			if x.Abnormal() != "" {
				return nil // reported by the scheduler verdict
			}
			var fs []explore.Finding
			for i, cn := range o.conns {
				if cn.env == nil {
					continue
				}
				if k, m := judge(hcase{Reqs: cn.reqs, Prog: p}, cn.stream, cn.rc, cn.env.T, "queued/"); k != "" {
					fs = append(fs, explore.Finding{Key: k, Msg: fmt.Sprintf("connection %d of %d: %s", i, len(o.conns), m)})
				}
			}
			return fs
		},
	}
}

func sharded(s *explore.Scenario) *explore.Scenario {
	s.Shards = 4
	return s
}

func build(tier string) []*explore.Scenario {
	th := tier == "thorough"
	scs := []*explore.Scenario{sequential(th)}
	get := reqSpec{"GET", "1.1", ""}
	getClose := reqSpec{"GET", "1.1", "close"}
	post := reqSpec{"POST5", "1.1", ""}
	b := 1
	if th {
		b = 2
	}
	for _, cfg := range []hlib.ChanCfg{{4, true}, {1, true}} {
		scs = append(scs,
			// (one deviation more: Close polls the sender every 100ms, so catching the sender between two of
			// its steps takes a preemption plus a clock tick or a second preemption)
			queued("close-path", cfg, [][]reqSpec{{post, getClose}}, prog{0, "cl", []int{14}, "", "all"}, b),
			queued("close-path", cfg, [][]reqSpec{{getClose}}, prog{200, "none", []int{2049}, "", "none"}, b+1),
			queued("close-path", cfg, [][]reqSpec{{getClose}}, prog{0, "cl", []int{14}, "", "none"}, b+1),
			queued("close-path", cfg, [][]reqSpec{{get, getClose}}, prog{404, "chunked", []int{2048, 1}, "", "none"}, b),
			// two connections whose handlers overlap (shared writer pool)
			sharded(queued("two-connections", cfg, [][]reqSpec{{getClose}, {getClose}}, prog{0, "cl", []int{14, 14}, "", "none"}, b)),
		)
	}
	// handlers of two connections overlapping after an explicit Flush (the writer pool is shared)
	tc := queued("two-connections", hlib.ChanCfg{Q: 4, Until: true}, [][]reqSpec{{get, getClose}, {getClose}}, prog{0, "cl", []int{14}, "end", "none"}, b)
	tc.Shards = 8
	scs = append(scs, tc)
	// one adapter instance shared by two / three connections
	scs = append(scs,
		sharded(queuedShared("shared-adapter", hlib.ChanCfg{}, [][]reqSpec{{get, getClose}, {post, getClose}}, prog{0, "cl", []int{14}, "", "all"}, 1, true)),
		sharded(queuedShared("shared-adapter", hlib.ChanCfg{Q: 4, Until: true}, [][]reqSpec{{getClose}, {getClose}}, prog{0, "cl", []int{14}, "", "none"}, 1, true)),
	)
	if th {
		scs = append(scs, sharded(queuedShared("shared-adapter", hlib.ChanCfg{}, [][]reqSpec{{getClose}, {getClose}, {getClose}}, prog{404, "chunked", []int{14, 3}, "", "none"}, 1, true)))
	}
	return scs
}

func main() {
	explore.Main(explore.Spec{
		Property: "C15",
		Rule:     "sequential part: every request sequence (all single requests over {GET, POST CL 0, POST CL 5, POST chunked, POST with a request-looking body} x {HTTP/1.1, 1.0} x {no Connection header, close, keep-alive}; 49 pairs; 3 triples) x fragmentation (whole, 1-byte reads, single cuts) x handler program ([WriteHeader(200|404)]? x {Content-Length, chunked, neither} x 0-2 writes around the 2048-byte buffer x Flush {none, end, middle} x body consumption {none, half, all}; only self-consistent programs) on ServerCodec()+Handler(h) over the real sync channel and read loop; E1 part: queued blocking channels aq(4,B)/aq(1,B) (non-blocking queues that refuse writes are outside the property) with the background sender, the Connection: close path two overlapping connections sharing the writer pool, and two / three connections served by ONE shared adapter instance (also on the sync channel), all interleavings up to 1-2 preemptions. Oracle: handler invocations == the requests net/http reads from the same bytes (method, target, proto, headers, body), one response per served request parsed by http.ReadResponse with the same status / marker header / body, no further request served after a close-requesting request or a non-self-delimiting response, transport closed after the last response byte was flushed. distinct = distinct cases / observations",
		Assume:   []string{"net/http's ReadRequest/ReadResponse are the reference parsers", "handler programs are self-consistent (declared Content-Length equals bytes written)", "closing a connection that could have stayed open is allowed by the property's 'only if'"},
		Build:    build,
	})
}
