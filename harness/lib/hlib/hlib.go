//go:build verif

// Package hlib holds the shared channel driver used by the schedule-exploration
// harnesses: channel construction over the mock transport, the write entry
// points, call records and the wire parser.
package hlib

import (
	"bytes"
	"context"
	"fmt"
	"io"
	"sort"
	"strings"

	netty "github.com/go-netty/go-netty"
	"github.com/go-netty/go-netty/transport"
	"github.com/go-netty/go-netty/zz_verif/mock"
	"github.com/go-netty/go-netty/zz_verif/vsched"
)

// ChanCfg selects the channel factory: Q == 0 is the synchronous channel,
// otherwise NewAsyncWriteChannel(Q, Until).
type ChanCfg struct {
	Q     int
	Until bool
}

func (c ChanCfg) String() string {
	if c.Q == 0 {
		return "sync"
	}
	if c.Until {
		return fmt.Sprintf("aq(%d,B)", c.Q)
	}
	return fmt.Sprintf("aq(%d,N)", c.Q)
}

func (c ChanCfg) Factory() netty.ChannelFactory {
	if c.Q == 0 {
		return netty.NewChannel()
	}
	return netty.NewAsyncWriteChannel(c.Q, c.Until)
}

// Env is one channel over a mock transport with its read loop running.
type Env struct {
	T   *mock.Transport
	Ch  netty.Channel
	PL  netty.Pipeline
	Ctx context.Context
}

// Reader is the default inbound handler: it pulls bytes from the transport so
// that the read loop parks in the mock's Read; a failed read becomes an
// exception which (unless another handler consumes it) closes the channel.
type Reader struct {
	Got [][]byte
}

func (r *Reader) HandleRead(ctx netty.InboundContext, msg netty.Message) {
	var b [64]byte
	n, err := msg.(io.Reader).Read(b[:])
	if n > 0 {
		r.Got = append(r.Got, append([]byte(nil), b[:n]...))
	}
	if err != nil {
		panic(err)
	}
}

// Wrap selects one of the library's buffering transport wrappers (transport.NewTransport(conn,
// R, W)) between the channel and the mock, which then plays the raw connection. The zero value
// means the channel talks to the mock directly.
type Wrap struct{ R, W int }

func (w Wrap) String() string {
	if w == (Wrap{}) {
		return ""
	}
	return fmt.Sprintf("buffered(r=%d,w=%d)", w.R, w.W)
}

// Consumer is an application exception handler with a log-and-continue policy: it consumes every
// exception (the tail handler, which would close the channel, never sees it).
type Consumer struct {
	Reader
	Seen []error
}

func (c *Consumer) HandleException(ctx netty.ExceptionContext, ex netty.Exception) {
	c.Seen = append(c.Seen, ex)
}

// TimeoutErr is a net.Error whose Timeout() is true (an expired write deadline).
type TimeoutErr struct{}

func (TimeoutErr) Error() string   { return "mock: i/o timeout" }
func (TimeoutErr) Timeout() bool   { return true }
func (TimeoutErr) Temporary() bool { return true }

// NewEnv builds pipeline(handlers...) + channel and serves it (returns once the
// active event has been delivered, as Connect/accept do).
func NewEnv(cfg ChanCfg, parent context.Context, handlers ...netty.Handler) *Env {
	return NewEnvWrap(cfg, Wrap{}, parent, handlers...)
}

func NewEnvWrap(cfg ChanCfg, wrap Wrap, parent context.Context, handlers ...netty.Handler) *Env {
	if parent == nil {
		parent = context.Background()
	}
	e := &Env{T: mock.NewTransport("t1"), Ctx: parent}
	var tr transport.Transport = e.T
	if wrap != (Wrap{}) {
		e.T.Wrapped = true
		tr = transport.NewTransport(e.T, wrap.R, wrap.W)
	}
	e.PL = netty.NewPipeline()
	if len(handlers) == 0 {
		handlers = []netty.Handler{&Reader{}}
	}
	e.PL.AddLast(handlers...)
	e.Ch = cfg.Factory()(1, parent, e.PL, tr, netty.AsyncExecutor())
	e.PL.ServeChannel(e.Ch)
	return e
}

// EP is a low-level write entry point.
type EP int

const (
	Write1 EP = iota
	Writev
	CtxWrite1
	CtxWritev
	WriterWrite
	ReadFrom
	ChWrite // Channel.Write(message) through the pipeline
	NEP
)

var epNames = []string{"Write1", "Writev", "CtxWrite1", "CtxWritev", "Writer.Write", "ReadFrom", "Channel.Write"}

func (e EP) String() string { return epNames[e] }

// Split cuts p into two parts for the vectored entry points.
func Split(p []byte) [][]byte {
	h := len(p) / 2
	return [][]byte{p[:h], p[h:]}
}

// Do performs one call of entry point ep with payload p.
func Do(ch netty.Channel, ep EP, ctx context.Context, p []byte) (int64, error) {
	if ctx == nil {
		ctx = context.Background()
	}
	switch ep {
	case Write1:
		n, err := ch.Write1(p)
		return int64(n), err
	case Writev:
		return ch.Writev(Split(p))
	case CtxWrite1:
		n, err := ch.CtxWrite1(ctx, p)
		return int64(n), err
	case CtxWritev:
		return ch.CtxWritev(ctx, Split(p))
	case WriterWrite:
		n, err := ch.Writer().Write(p)
		return int64(n), err
	case ReadFrom:
		return ch.ReadFrom(onlyReader{bytes.NewReader(p)})
	case ChWrite:
		if err := ch.Write(p); err != nil {
			return 0, err
		}
		return int64(len(p)), nil
	}
	panic("bad ep")
}

type onlyReader struct{ r io.Reader }

func (o onlyReader) Read(p []byte) (int, error) { return o.r.Read(p) }

// Call records one write call of a harness thread (thread-local record).
type Call struct {
	ID      int // payload id (1..250)
	EP      EP
	Size    int
	Begin   int // logical step before the call
	End     int // logical step after the call returned (-1: still in flight)
	N       int64
	Err     error
	Blocked int // scheduler observations of the calling thread being disabled during the call
}

func (c Call) OK() bool { return c.End >= 0 && c.Err == nil }

func (c Call) String() string {
	s := fmt.Sprintf("#%d %s(%d)", c.ID, c.EP, c.Size)
	if c.End < 0 {
		return s + " in-flight"
	}
	if c.Err != nil {
		return s + " err=" + c.Err.Error()
	}
	return s + fmt.Sprintf(" ok n=%d", c.N)
}

// Writer is a harness thread's script and its records.
type Writer struct {
	Name  string
	Calls []*Call
}

// Run executes the script on ch (called on the writer's own controlled thread).
func (w *Writer) Run(ch netty.Channel, ctx context.Context) {
	for _, c := range w.Calls {
		t := vsched.Cur()
		b0 := 0
		if t != nil {
			b0 = t.Blocked
		}
		c.Begin = Stamp("begin")
		n, err := Do(ch, c.EP, ctx, mock.Payload(c.ID, c.Size))
		c.N, c.Err = n, err
		c.End = Stamp("end")
		if t != nil {
			c.Blocked = t.Blocked - b0
		}
	}
}

// NewCall prepares a call record.
func NewCall(id int, ep EP, size int) *Call { return &Call{ID: id, EP: ep, Size: size, End: -1} }

// ParseWire splits wire bytes into payload ids using the known calls. It
// returns the id sequence and an error text when the bytes are not a
// concatenation of whole, unmodified payloads.
func ParseWire(wire []byte, calls map[int]*Call) ([]int, string) {
	var seq []int
	pos := 0
	for pos < len(wire) {
		id := int(wire[pos])
		c := calls[id]
		if c == nil {
			return seq, fmt.Sprintf("byte %d of the wire (0x%02x) does not start any payload", pos, wire[pos])
		}
		if pos+c.Size > len(wire) {
			return seq, fmt.Sprintf("payload #%d truncated at wire offset %d (%d of %d bytes)", id, pos, len(wire)-pos, c.Size)
		}
		for i := 0; i < c.Size; i++ {
			if wire[pos+i] != mock.PayloadByte(id, i) {
				return seq, fmt.Sprintf("payload #%d modified at its byte %d (wire offset %d)", id, i, pos+i)
			}
		}
		seq = append(seq, id)
		pos += c.Size
	}
	return seq, ""
}

// Calls flattens writers into an id-indexed map.
func CallMap(ws []*Writer) map[int]*Call {
	m := map[int]*Call{}
	for _, w := range ws {
		for _, c := range w.Calls {
			m[c.ID] = c
		}
	}
	return m
}

// Describe renders the call records.
func Describe(ws []*Writer) string {
	var b strings.Builder
	for _, w := range ws {
		b.WriteString(w.Name + "[")
		for i, c := range w.Calls {
			if i > 0 {
				b.WriteString("; ")
			}
			b.WriteString(c.String())
		}
		b.WriteString("] ")
	}
	return b.String()
}

// SentBefore returns, per payload id, the index in the log of the successful
// write that carried it, considering only events before log index end
// (end < 0: whole log), plus a parse error.
func WireUpTo(t *mock.Transport, end int) []byte {
	var w []byte
	for i, e := range t.Log {
		if end >= 0 && i >= end {
			break
		}
		if (e.Kind == 'W' || e.Kind == 'V') && !e.Failed {
			w = append(w, e.Data...)
		}
	}
	return w
}

// FirstClose returns the log index of the first Close call (-1 if none).
func FirstClose(t *mock.Transport) int {
	for i, e := range t.Log {
		if e.Kind == 'C' {
			return i
		}
	}
	return -1
}

var stampRef vsched.Ref

// Stamp is a scheduler-visible marker on one global object: it totally orders
// call begin/end events of different threads (and makes that order part of the
// happens-before state, so state caching cannot merge executions that differ in
// it). Returns the logical step.
func Stamp(what string) int {
	vsched.Op("stamp "+what, stampRef.Get("stamp", nil), vsched.RD|vsched.WR, nil)
	return vsched.X.Steps()
}

// SortedCalls returns the calls in id order (oracles must not depend on map order).
func SortedCalls(m map[int]*Call) []*Call {
	ids := make([]int, 0, len(m))
	for id := range m {
		ids = append(ids, id)
	}
	sort.Ints(ids)
	out := make([]*Call, 0, len(ids))
	for _, id := range ids {
		out = append(out, m[id])
	}
	return out
}
