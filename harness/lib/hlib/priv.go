//go:build verif

package hlib

import (
	"reflect"
	"strings"
	"unsafe"

	netty "github.com/go-netty/go-netty"
)

// Read-only access to private state by reflection (no file has to be added to the library's
// package, and a renamed private field degrades to "unknown" instead of breaking the build).

func deref(x any) reflect.Value {
	v := reflect.ValueOf(x)
	for v.IsValid() && (v.Kind() == reflect.Ptr || v.Kind() == reflect.Interface) {
		if v.IsNil() {
			return reflect.Value{}
		}
		v = v.Elem()
	}
	return v
}

func intField(v reflect.Value, names ...string) (int32, bool) {
	for _, n := range names {
		f := v.FieldByName(n)
		if !f.IsValid() {
			continue
		}
		switch f.Kind() {
		case reflect.Int32, reflect.Int64, reflect.Int:
			return int32(f.Int()), true
		case reflect.Uint32, reflect.Uint64:
			return int32(f.Uint()), true
		case reflect.Bool:
			if f.Bool() {
				return 1, true
			}
			return 0, true
		case reflect.Struct: // typed atomics (atomic.Int32 / atomic.Bool shims): first field holds the value
			if f.NumField() > 0 {
				g := f.Field(f.NumField() - 1)
				for i := 0; i < f.NumField(); i++ {
					if k := f.Field(i).Kind(); k == reflect.Int32 || k == reflect.Int64 || k == reflect.Uint32 {
						g = f.Field(i)
						break
					}
				}
				switch g.Kind() {
				case reflect.Int32, reflect.Int64:
					return int32(g.Int()), true
				case reflect.Uint32:
					return int32(g.Uint()), true
				}
			}
		}
	}
	return 0, false
}

// ChanState returns the sender-ownership flag, the queue length and capacity of a channel
// (ok == false: the private layout is not recognised).
func ChanState(ch netty.Channel) (running int32, qlen, qcap int, ok bool) {
	v := deref(ch)
	if !v.IsValid() || v.Kind() != reflect.Struct {
		return 0, 0, 0, false
	}
	// the sender-ownership flag: an integer / typed-atomic field whose name mentions run / send
	var r int32
	okr := false
	for i := 0; i < v.NumField() && !okr; i++ {
		n := strings.ToLower(v.Type().Field(i).Name)
		if strings.Contains(n, "run") || strings.Contains(n, "send") {
			r, okr = intField(v, v.Type().Field(i).Name)
		}
	}
	if !okr {
		return 0, 0, 0, false
	}
	// the write queue: the (only) field of type chan []byte
	for i := 0; i < v.NumField(); i++ {
		f := v.Field(i)
		if f.Kind() == reflect.Chan && f.Type().Elem().Kind() == reflect.Slice {
			if !f.IsNil() {
				qlen, qcap = f.Len(), f.Cap()
			}
			return r, qlen, qcap, true
		}
	}
	return r, 0, 0, true
}

// HolderSize returns the number of channels registered in a holder (-1: unknown layout).
func HolderSize(h netty.ChannelHolder) int {
	v := deref(h)
	if !v.IsValid() || v.Kind() != reflect.Struct {
		return -1
	}
	for i := 0; i < v.NumField(); i++ {
		if f := v.Field(i); f.Kind() == reflect.Map {
			return f.Len()
		}
	}
	return -1
}

// AttachChannel binds ch to a pipeline without starting its read loop (pipeline-only
// harnesses drive events themselves). Returns false when the layout is not recognised.
func AttachChannel(p netty.Pipeline, ch netty.Channel) bool {
	v := deref(p)
	if !v.IsValid() || v.Kind() != reflect.Struct {
		return false
	}
	chType := reflect.TypeOf((*netty.Channel)(nil)).Elem()
	for i := 0; i < v.NumField(); i++ {
		f := v.Field(i)
		if f.Type() == chType && f.CanAddr() {
			reflect.NewAt(f.Type(), unsafe.Pointer(f.UnsafeAddr())).Elem().Set(reflect.ValueOf(ch))
			return true
		}
	}
	return false
}
