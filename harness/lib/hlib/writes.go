//go:build verif

package hlib

import (
	"context"
	"fmt"
	"strings"
	"time"

	netty "github.com/go-netty/go-netty"
	"github.com/go-netty/go-netty/zz_verif/explore"
	"github.com/go-netty/go-netty/zz_verif/vcontext"
	"github.com/go-netty/go-netty/zz_verif/vsched"
)

// WParams describes a closed "N writers on one channel" driver.
type WParams struct {
	Cfg     ChanCfg
	Wrap    Wrap   // library buffering wrapper between channel and mock (zero: none)
	Writers [][]EP // per writer thread: the entry point of each of its calls
	Sizes   []int  // payload size per call in flattening order (missing = 3)
	// Prep (optional) scripts the freshly served channel's environment before the writers start (fault
	// injection); Handlers (optional) replaces the default inbound handler.
	Prep     func(e *Env)
	Handlers func() []netty.Handler
	// Deadline: the writers' contexts carry a (far away) deadline, so the synchronous Ctx entry points arm
	// and clear the transport's write deadline around their writes
	Deadline bool
	// CtxKinds (optional, per writer): "" background | "cancelled" already cancelled | "cancel-later"
	// cancelled by an extra goroutine at some point
	CtxKinds []string
	Bound    int
	Tag      string
	Cache    bool
	Shards   int
}

type WObs struct {
	Env *Env
	Ws  []*Writer
	// Idle0 is the value of the private sender-ownership flag right after the channel was
	// created (nobody sending): the representation-independent meaning of "at rest".
	Idle0  int32
	PrivOK bool // the private channel layout was recognised
}

func (p WParams) name() string {
	var ws []string
	for _, w := range p.Writers {
		var es []string
		for _, e := range w {
			es = append(es, e.String())
		}
		ws = append(ws, strings.Join(es, ","))
	}
	s := fmt.Sprintf("%s/%s", p.Cfg, strings.Join(ws, "|"))
	if p.Wrap != (Wrap{}) {
		s = fmt.Sprintf("%s+%s/%s", p.Cfg, p.Wrap, strings.Join(ws, "|"))
	}
	if len(p.Sizes) > 0 {
		s += fmt.Sprintf("/sizes=%v", p.Sizes)
	}
	if p.Tag != "" {
		s += "/" + p.Tag
	}
	return s
}

// WriteScenario: every writer is its own thread, main joins them; nothing else
// touches the channel afterwards (the read loop stays parked in Read).
func WriteScenario(p WParams, check func(x *vsched.Exec, o *WObs) []explore.Finding) *explore.Scenario {
	return &explore.Scenario{
		Name:   p.name(),
		Bound:  p.Bound,
		Cache:  p.Cache,
		Shards: p.Shards,
		Cfg:    vsched.Config{MaxSteps: 8000},
		Init:   func() any { return &WObs{} },
		Body: func(v any) {
			o := v.(*WObs)
			var hs []netty.Handler
			if p.Handlers != nil {
				hs = p.Handlers()
			}
			o.Env = NewEnvWrap(p.Cfg, p.Wrap, nil, hs...)
			if p.Prep != nil {
				p.Prep(o.Env)
			}
			o.Idle0, _, _, o.PrivOK = ChanState(o.Env.Ch)
			id := 1
			for i, eps := range p.Writers {
				w := &Writer{Name: fmt.Sprintf("w%d", i+1)}
				for _, ep := range eps {
					size := 3
					if id-1 < len(p.Sizes) {
						size = p.Sizes[id-1]
					}
					w.Calls = append(w.Calls, NewCall(id, ep, size))
					id++
				}
				o.Ws = append(o.Ws, w)
			}
			var ths []*vsched.Thread
			for wi, w := range o.Ws {
				wi, w := wi, w
				var ctx context.Context
				if p.Deadline {
					ctx, _ = vcontext.WithTimeout(context.Background(), time.Hour)
				}
				if wi < len(p.CtxKinds) {
					switch p.CtxKinds[wi] {
					case "cancelled":
						c, cancel := vcontext.WithCancel(context.Background())
						cancel()
						ctx = c
					case "cancel-later":
						c, cancel := vcontext.WithCancel(context.Background())
						ctx = c
						ths = append(ths, vsched.Go(w.Name+"-canceller", func() { cancel() }))
					}
				}
				ths = append(ths, vsched.Go(w.Name, func() { w.Run(o.Env.Ch, ctx) }))
			}
			for _, t := range ths {
				vsched.Join(t)
			}
		},
		Outcome: func(x *vsched.Exec, v any) string {
			o := v.(*WObs)
			if o.Env == nil {
				return "no-env"
			}
			return o.Env.T.LogString() + " | " + Describe(o.Ws)
		},
		Check: func(x *vsched.Exec, v any) []explore.Finding {
			o := v.(*WObs)
			if o.Env == nil {
				return []explore.Finding{{Key: "harness/no-env", Msg: "channel construction did not finish"}}
			}
			return check(x, o)
		},
	}
}

// CheckOrder is the C01 oracle on the terminal transport log (the log is
// append-only and every transport call is atomic, so the conditions below on
// the final log imply them for every earlier moment).
func CheckOrder(x *vsched.Exec, o *WObs) []explore.Finding {
	t := o.Env.T
	calls := CallMap(o.Ws)
	var fs []explore.Finding
	ctxs := " log: " + t.LogString() + " | " + Describe(o.Ws)
	seq, perr := ParseWire(t.Wire(), calls)
	if perr != "" {
		return []explore.Finding{{Key: "garbled-wire", Msg: perr + ctxs}}
	}
	pos := map[int]int{}
	for i, id := range seq {
		if _, dup := pos[id]; dup {
			fs = append(fs, explore.Finding{Key: "duplicate-payload", Msg: fmt.Sprintf("payload #%d handed to the transport twice;%s", id, ctxs)})
			return fs
		}
		pos[id] = i
	}
	for _, c := range SortedCalls(calls) {
		id := c.ID
		_, on := pos[id]
		if c.End >= 0 && c.Err != nil && on && c.Size > 0 {
			fs = append(fs, explore.Finding{Key: "failed-call-sent/" + c.EP.String(), Msg: fmt.Sprintf("call #%d returned error %v but its bytes reached the transport;%s", id, c.Err, ctxs)})
		}
		if c.OK() && c.N != int64(c.Size) {
			fs = append(fs, explore.Finding{Key: "wrong-count/" + c.EP.String(), Msg: fmt.Sprintf("call #%d succeeded with n=%d for %d bytes;%s", id, c.N, c.Size, ctxs)})
		}
	}
	// one goroutine's payloads in call order
	for _, w := range o.Ws {
		last := -1
		for _, c := range w.Calls {
			if p, on := pos[c.ID]; on && c.Size > 0 {
				if p < last {
					fs = append(fs, explore.Finding{Key: "thread-order", Msg: fmt.Sprintf("payloads of %s reached the transport out of call order (#%d);%s", w.Name, c.ID, ctxs)})
				}
				last = p
			}
		}
	}
	// real-time order: A returned (success) before B began => A precedes B; B on the wire => A on the wire
	for _, a := range SortedCalls(calls) {
		if !a.OK() || a.Size == 0 {
			continue
		}
		for _, b := range SortedCalls(calls) {
			if a == b || b.Size == 0 || a.End >= b.Begin {
				continue
			}
			pb, onb := pos[b.ID]
			if !onb {
				continue
			}
			pa, ona := pos[a.ID]
			if !ona {
				fs = append(fs, explore.Finding{Key: "skipped-payload", Msg: fmt.Sprintf("payload #%d (accepted before call #%d began) is missing while #%d was already sent;%s", a.ID, b.ID, b.ID, ctxs)})
			} else if pa > pb {
				fs = append(fs, explore.Finding{Key: "realtime-order", Msg: fmt.Sprintf("call #%d returned before call #%d began but was sent after it;%s", a.ID, b.ID, ctxs)})
			}
		}
	}
	return fs
}

// CheckQuiescent is the C02 oracle: at quiescence every accepted payload has
// been written and flushed, and the channel's sender state is at rest.
func CheckQuiescent(x *vsched.Exec, o *WObs) []explore.Finding {
	t := o.Env.T
	calls := CallMap(o.Ws)
	ctxs := " log: " + t.LogString() + " | " + Describe(o.Ws)
	var fs []explore.Finding
	seq, perr := ParseWire(t.Wire(), calls)
	if perr != "" {
		return []explore.Finding{{Key: "garbled-wire", Msg: perr + ctxs}}
	}
	on := map[int]bool{}
	for _, id := range seq {
		on[id] = true
	}
	for _, c := range SortedCalls(calls) {
		id := c.ID
		if c.End < 0 {
			fs = append(fs, explore.Finding{Key: "call-never-returned/" + c.EP.String(), Msg: fmt.Sprintf("write call #%d never returned;%s", id, ctxs)})
			continue
		}
		if c.OK() && c.Size > 0 && !on[id] {
			fs = append(fs, explore.Finding{Key: "stranded-payload", Msg: fmt.Sprintf("payload #%d was accepted but never handed to the transport although all calls returned and all goroutines are at rest;%s", id, ctxs)})
			break
		}
	}
	if t.Unflushed > 0 {
		fs = append(fs, explore.Finding{Key: "unflushed", Msg: "written payloads were left unflushed at quiescence;" + ctxs})
	}
	running, qlen, _, ok := ChanState(o.Env.Ch)
	if !ok || !o.PrivOK {
		return fs // private state unavailable: the behavioural clauses above still decide
	}
	if qlen != 0 {
		fs = append(fs, explore.Finding{Key: "queue-not-empty", Msg: fmt.Sprintf("%d packets parked in the write queue at quiescence;%s", qlen, ctxs)})
	}
	if running != o.Idle0 {
		fs = append(fs, explore.Finding{Key: "sender-flag-stuck", Msg: "the sender ownership flag is still set at quiescence (no sender is running);" + ctxs})
	}
	return fs
}

// Mixes returns entry-point mixes for a writers x calls grid such that every
// one of the five low-level entry points occurs in every position.
func Mixes(writers, calls int) [][][]EP {
	eps := []EP{Write1, Writev, CtxWrite1, CtxWritev, WriterWrite}
	var out [][][]EP
	for k := 0; k < len(eps); k++ {
		var grid [][]EP
		j := 0
		for w := 0; w < writers; w++ {
			var row []EP
			for c := 0; c < calls; c++ {
				row = append(row, eps[(j+k)%len(eps)])
				j++
			}
			grid = append(grid, row)
		}
		out = append(out, grid)
	}
	return out
}
