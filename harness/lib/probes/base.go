//go:build verif

// Package probes provides scripted recording handlers for every subset of the
// six handler interfaces.
package probes

import (
	"fmt"

	netty "github.com/go-netty/go-netty"
)

// Kinds (bit positions in masks).
const (
	KActive = iota
	KRead
	KWrite
	KException
	KInactive
	KEvent
	NKinds
)

var KindNames = []string{"active", "read", "write", "exception", "inactive", "event"}

// Visit is one handler invocation.
type Visit struct {
	H       *Base
	Kind    int
	Payload any
	SelfOK  bool // ctx.Handler() is the invoked handler
	Ctx     netty.HandlerContext
}

func (v Visit) String() string {
	return fmt.Sprintf("h%d.%s", v.H.ID, KindNames[v.Kind])
}

// Recorder collects visits in order.
type Recorder struct {
	Visits []Visit
}

// Action scripted for a handler on a given kind of event.
type Action int

const (
	Swallow   Action = iota // do nothing further
	Forward                 // pass the event on (ctx.HandleX)
	Panic                   // panic with PanicVal
	CloseCh                 // ctx.Close(CloseErr)
	WriteBack               // ctx.Write(WriteMsg)
	TriggerEv               // ctx.Trigger(EventVal)
)

// Base is the state shared by all probe types.
type Base struct {
	ID       int
	Mask     int
	Rec      *Recorder
	Act      [NKinds]Action
	PanicVal any
	CloseErr error
	WriteMsg any
	EventVal any
	// Once: a Panic / CloseCh action is performed only the first time; afterwards the handler forwards.
	Once bool
	// Hook, when set, runs at the start of every invocation (harness-specific logging).
	Hook func(kind int, ctx netty.HandlerContext, payload any)
}

func (b *Base) visit(self netty.Handler, kind int, ctx netty.HandlerContext, payload any) Action {
	if b.Hook != nil {
		b.Hook(kind, ctx, payload)
	}
	if b.Rec != nil {
		b.Rec.Visits = append(b.Rec.Visits, Visit{H: b, Kind: kind, Payload: payload, SelfOK: ctx.Handler() == self, Ctx: ctx})
	}
	a := b.Act[kind]
	if b.Once && (a == Panic || a == CloseCh) {
		b.Act[kind] = Forward
	}
	switch a {
	case Panic:
		panic(b.PanicVal)
	case CloseCh:
		ctx.Close(b.CloseErr)
	case WriteBack:
		ctx.Write(b.WriteMsg)
	case TriggerEv:
		ctx.Trigger(b.EventVal)
	}
	return a
}

func (b *Base) onActive(self netty.Handler, ctx netty.ActiveContext) {
	if b.visit(self, KActive, ctx, nil) == Forward {
		ctx.HandleActive()
	}
}
func (b *Base) onRead(self netty.Handler, ctx netty.InboundContext, m netty.Message) {
	if b.visit(self, KRead, ctx, m) == Forward {
		ctx.HandleRead(m)
	}
}
func (b *Base) onWrite(self netty.Handler, ctx netty.OutboundContext, m netty.Message) {
	if b.visit(self, KWrite, ctx, m) == Forward {
		ctx.HandleWrite(m)
	}
}
func (b *Base) onException(self netty.Handler, ctx netty.ExceptionContext, ex netty.Exception) {
	if b.visit(self, KException, ctx, ex) == Forward {
		ctx.HandleException(ex)
	}
}
func (b *Base) onInactive(self netty.Handler, ctx netty.InactiveContext, ex netty.Exception) {
	if b.visit(self, KInactive, ctx, ex) == Forward {
		ctx.HandleInactive(ex)
	}
}
func (b *Base) onEvent(self netty.Handler, ctx netty.EventContext, ev netty.Event) {
	if b.visit(self, KEvent, ctx, ev) == Forward {
		ctx.HandleEvent(ev)
	}
}
