//go:build verif

package clib

import (
	"bytes"
	"encoding/binary"
	"fmt"

	netty "github.com/go-netty/go-netty"
	"github.com/go-netty/go-netty/codec/frame"
)

// FrameCfg is one frame-codec configuration plus its reference semantics.
type FrameCfg struct {
	Kind   string `json:"kind"` // "lengthfield" | "prepender" | "varint" | "delimiter" | "fixed"
	W      int    `json:"w,omitempty"`
	Little bool   `json:"little,omitempty"`
	Off    int    `json:"off,omitempty"`
	Adj    int    `json:"adj,omitempty"`
	Strip  int    `json:"strip,omitempty"`
	Incl   bool   `json:"incl,omitempty"` // prepender: length includes the length field
	Max    int    `json:"max,omitempty"`
	Delim  string `json:"delim,omitempty"`
	StripD bool   `json:"stripd,omitempty"`
	N      int    `json:"n,omitempty"` // fixed length
}

func (c FrameCfg) String() string {
	switch c.Kind {
	case "lengthfield":
		return fmt.Sprintf("LengthField(w=%d,%s,off=%d,adj=%d,strip=%d,max=%d)", c.W, c.orderName(), c.Off, c.Adj, c.Strip, c.Max)
	case "prepender":
		return fmt.Sprintf("Prepender(w=%d,%s,adj=%d,incl=%v)+decoder", c.W, c.orderName(), c.Adj, c.Incl)
	case "varint":
		return fmt.Sprintf("Varint(max=%d)", c.Max)
	case "delimiter":
		return fmt.Sprintf("Delimiter(%q,strip=%v,max=%d)", c.Delim, c.StripD, c.Max)
	}
	return fmt.Sprintf("Fixed(%d)", c.N)
}

func (c FrameCfg) orderName() string {
	if c.Little {
		return "LE"
	}
	return "BE"
}

func (c FrameCfg) Order() binary.ByteOrder {
	if c.Little {
		return binary.LittleEndian
	}
	return binary.BigEndian
}

// KeyClass is the configuration class used in finding keys.
func (c FrameCfg) KeyClass() string {
	switch c.Kind {
	case "lengthfield", "prepender":
		return fmt.Sprintf("%s/w=%d", c.Kind, c.W)
	}
	return c.Kind
}

// Decoder returns the inbound handler(s) of the configuration.
func (c FrameCfg) Decoder() []netty.Handler {
	switch c.Kind {
	case "lengthfield":
		return []netty.Handler{frame.LengthFieldCodec(c.Order(), c.Max, c.Off, c.W, c.Adj, c.Strip)}
	case "prepender":
		adj := -c.Adj
		if c.Incl {
			adj -= c.W
		}
		return []netty.Handler{frame.LengthFieldCodec(c.Order(), c.Max, 0, c.W, adj, c.W)}
	case "varint":
		return []netty.Handler{frame.VarintLengthFieldCodec(c.Max)}
	case "delimiter":
		return []netty.Handler{frame.DelimiterCodec(c.Max, c.Delim, c.StripD)}
	}
	return []netty.Handler{frame.FixedLengthCodec(c.N)}
}

// Encoder returns the library's outbound handler for the configuration, or nil
// when the configuration has no shipped encoder (offset / adjusted length-field
// decoders are fed by RefFrame).
func (c FrameCfg) Encoder() []netty.Handler {
	switch c.Kind {
	case "lengthfield":
		if c.Off == 0 && c.Adj == 0 {
			return []netty.Handler{frame.LengthFieldCodec(c.Order(), c.Max, c.Off, c.W, c.Adj, c.Strip)}
		}
		return nil
	case "prepender":
		return []netty.Handler{frame.LengthFieldPrepender(c.Order(), c.W, c.Adj, c.Incl)}
	case "varint":
		return []netty.Handler{frame.VarintLengthFieldCodec(c.Max)}
	case "delimiter":
		return []netty.Handler{frame.DelimiterCodec(c.Max, c.Delim, c.StripD)}
	}
	return []netty.Handler{frame.FixedLengthCodec(c.N)}
}

func putField(order binary.ByteOrder, w int, v uint64) []byte {
	b := make([]byte, w)
	switch w {
	case 1:
		b[0] = byte(v)
	case 2:
		order.PutUint16(b, uint16(v))
	case 4:
		order.PutUint32(b, uint32(v))
	case 8:
		order.PutUint64(b, v)
	}
	return b
}

func fieldCap(w int) uint64 {
	if w == 8 {
		return 1<<63 - 1
	}
	return 1<<(8*uint(w)) - 1
}

// RefFrame is the reference encoding of body; ok is false when the
// configuration's contract does not admit the payload (length does not fit the
// field, exceeds the maximum, strip exceeds the frame, body contains the delimiter...).
func (c FrameCfg) RefFrame(body []byte) (wire []byte, ok bool) {
	switch c.Kind {
	case "lengthfield":
		field := len(body) - c.Adj
		if field < 0 || uint64(field) > fieldCap(c.W) {
			return nil, false
		}
		total := c.Off + c.W + len(body)
		if total > c.Max || c.Strip > total {
			return nil, false
		}
		w := make([]byte, 0, total)
		for i := 0; i < c.Off; i++ {
			w = append(w, byte(0xA0+i))
		}
		w = append(w, putField(c.Order(), c.W, uint64(field))...)
		return append(w, body...), true
	case "prepender":
		v := len(body) + c.Adj
		if c.Incl {
			v += c.W
		}
		if v < 0 || uint64(v) > fieldCap(c.W) || c.W+len(body) > c.Max {
			return nil, false
		}
		return append(putField(c.Order(), c.W, uint64(v)), body...), true
	case "varint":
		if len(body) > c.Max {
			return nil, false
		}
		var h [binary.MaxVarintLen64]byte
		n := binary.PutUvarint(h[:], uint64(len(body)))
		return append(append([]byte{}, h[:n]...), body...), true
	case "delimiter":
		if bytes.Contains(body, []byte(c.Delim)) || len(body)+len(c.Delim) > c.Max {
			return nil, false
		}
		// the body followed by the delimiter must not complete a delimiter early
		full := append(append([]byte{}, body...), c.Delim...)
		if bytes.Index(full, []byte(c.Delim)) != len(body) {
			return nil, false
		}
		return full, true
	}
	if len(body) != c.N {
		return nil, false
	}
	return append([]byte{}, body...), true
}

// Expect is the message the decoder must deliver for body.
func (c FrameCfg) Expect(body []byte) []byte {
	switch c.Kind {
	case "lengthfield":
		w, _ := c.RefFrame(body)
		return w[c.Strip:]
	case "delimiter":
		if c.StripD {
			return body
		}
		return append(append([]byte{}, body...), c.Delim...)
	}
	return body
}

// HeaderEnd returns the offset just past the header of a frame (for header cuts).
func (c FrameCfg) HeaderLen(body []byte) int {
	switch c.Kind {
	case "lengthfield":
		return c.Off + c.W
	case "prepender":
		return c.W
	case "varint":
		var h [binary.MaxVarintLen64]byte
		return binary.PutUvarint(h[:], uint64(len(body)))
	case "delimiter":
		return 0
	}
	return 0
}

// Body builds a distinguishable body of n bytes for frame number k.
func Body(k, n int) []byte {
	b := make([]byte, n)
	for i := range b {
		b[i] = byte(0x30 + (k*17+i*7+i>>8)%0x4f) // printable, never \r \n
	}
	return b
}
