//go:build verif

// Package clib drives codecs through the real pipeline / channel / read loop in a
// single goroutine (inline executor) over the scripted mock transport.
package clib

import (
	"context"
	"errors"
	"fmt"
	"io"

	netty "github.com/go-netty/go-netty"
	"github.com/go-netty/go-netty/utils"
	"github.com/go-netty/go-netty/zz_verif/hlib"
	"github.com/go-netty/go-netty/zz_verif/mock"
	"github.com/go-netty/go-netty/zz_verif/vsched"
)

// Inline runs every action on the calling goroutine.
type Inline struct{}

func (Inline) Exec(a netty.Action) { a() }

// Delivery is one message that reached the application handler.
type Delivery struct {
	Bytes    []byte
	Obj      any   // non-byte messages (decoded objects, strings)
	ReadErr  error // reading the message failed (counts as an exception, not a delivery)
	Consumed int   // transport bytes handed out when the message had been fully read
}

// ErrRunaway is raised by the sink when deliveries exceed the cap (endless stream).
var ErrRunaway = errors.New("verif: delivery cap exceeded (endless stream of messages)")

// Sink is the application handler at the end of the pipeline.
type Sink struct {
	T          *mock.Transport
	Msgs       []Delivery
	Exceptions []error
	Inactive   int
	Cap        int
	UseHelper  bool // read reader-typed messages with utils.ToBytes (the shipped helper) instead of io.ReadAll
	Runaway    bool
	Swallow    bool // swallow exceptions instead of forwarding them to the tail
}

func (s *Sink) HandleRead(ctx netty.InboundContext, msg netty.Message) {
	d := Delivery{}
	switch m := msg.(type) {
	case []byte:
		d.Bytes = append([]byte{}, m...)
	case io.Reader:
		var b []byte
		var err error
		if s.UseHelper {
			b, err = utils.ToBytes(m)
		} else {
			b, err = io.ReadAll(m)
		}
		d.Bytes, d.ReadErr = append([]byte{}, b...), err
	default:
		d.Obj = msg
	}
	if s.T != nil {
		d.Consumed = s.T.Consumed
	}
	s.Msgs = append(s.Msgs, d)
	if d.ReadErr != nil {
		panic(d.ReadErr) // what a real handler does (utils.Must*): the failure becomes an exception
	}
	if s.Cap > 0 && len(s.Msgs) > s.Cap {
		s.Runaway = true
		panic(ErrRunaway)
	}
}

func (s *Sink) HandleException(ctx netty.ExceptionContext, ex netty.Exception) {
	s.Exceptions = append(s.Exceptions, ex)
	if !s.Swallow || errors.Is(ex, ErrRunaway) {
		ctx.HandleException(ex)
	}
}

func (s *Sink) HandleInactive(ctx netty.InactiveContext, ex netty.Exception) {
	s.Inactive++
	ctx.HandleInactive(ex)
}

// Good returns the deliveries whose read succeeded.
func (s *Sink) Good() []Delivery {
	var g []Delivery
	for _, d := range s.Msgs {
		if d.ReadErr == nil {
			g = append(g, d)
		}
	}
	return g
}

// Result of a decode run.
type Result struct {
	Sink   *Sink
	T      *mock.Transport
	Closed bool
	Panic  any // a panic that escaped ServeChannel (must never happen)
	Steps  int
}

// Decode feeds fragments (then end-of-stream) through pipeline(handlers..., sink)
// using the real channel read loop, inline.
func Decode(handlers []netty.Handler, fragments [][]byte, dataWithEOF bool, useHelper bool, cap int) (res Result) {
	t := mock.NewTransport("dec")
	for _, f := range fragments {
		if len(f) > 0 {
			t.In = append(t.In, f)
		}
	}
	t.EOFAtEnd = true
	t.DataWithEOF = dataWithEOF
	sink := &Sink{T: t, Cap: cap, UseHelper: useHelper}
	pl := netty.NewPipeline()
	pl.AddLast(handlers...)
	pl.AddLast(sink)
	ch := netty.NewChannel()(1, context.Background(), pl, t, Inline{})
	res.Sink, res.T = sink, t
	func() {
		defer func() { res.Panic = recover() }()
		pl.ServeChannel(ch) // returns when the read loop has ended (channel closed)
	}()
	res.Closed = t.Closes > 0
	if vsched.X != nil {
		res.Steps = vsched.X.Steps()
	}
	return
}

// Encode writes msg through pipeline(handlers...) and returns the wire bytes and
// the exceptions raised.
func Encode(handlers []netty.Handler, msgs ...any) (wire []byte, exceptions []error, t *mock.Transport) {
	t = mock.NewTransport("enc")
	sink := &Sink{T: t, Swallow: true}
	pl := netty.NewPipeline()
	pl.AddLast(handlers...)
	pl.AddLast(sink)
	ch := netty.NewChannel()(1, context.Background(), pl, t, Inline{})
	hlib.AttachChannel(pl, ch)
	for _, m := range msgs {
		if err := ch.Write(m); err != nil {
			sink.Exceptions = append(sink.Exceptions, err)
		}
	}
	return t.Wire(), sink.Exceptions, t
}

// Fragment splits stream at the given cut offsets (ascending, 0 < c < len).
func Fragment(stream []byte, cuts []int) [][]byte {
	var out [][]byte
	prev := 0
	for _, c := range cuts {
		if c > prev && c < len(stream) {
			out = append(out, stream[prev:c])
			prev = c
		}
	}
	return append(out, stream[prev:])
}

// Compositions calls f with every composition (set of cut points) of n bytes.
func Compositions(n int, f func(cuts []int)) {
	if n <= 1 {
		f(nil)
		return
	}
	for mask := 0; mask < 1<<(n-1); mask++ {
		var cuts []int
		for i := 0; i < n-1; i++ {
			if mask>>i&1 == 1 {
				cuts = append(cuts, i+1)
			}
		}
		f(cuts)
	}
}

// Ones returns the cut set for 1-byte reads.
func Ones(n int) []int {
	c := make([]int, 0, n)
	for i := 1; i < n; i++ {
		c = append(c, i)
	}
	return c
}

func Describe(d []Delivery) string {
	s := ""
	for i, m := range d {
		if i > 0 {
			s += " "
		}
		if m.ReadErr != nil {
			s += fmt.Sprintf("[%d bytes then %v]", len(m.Bytes), m.ReadErr)
		} else if m.Obj != nil {
			s += fmt.Sprintf("{%v}", m.Obj)
		} else {
			s += fmt.Sprintf("[%d bytes]@%d", len(m.Bytes), m.Consumed)
		}
	}
	return s
}
