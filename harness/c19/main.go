//go:build verif

// C19: buffer pool - capacity and exclusive ownership hold for every Get/Put history.
package main

import (
	"bytes"
	"encoding/json"
	"fmt"
	"unsafe"

	"github.com/go-netty/go-netty/utils/pool"
	"github.com/go-netty/go-netty/utils/pool/pbuffer"
	"github.com/go-netty/go-netty/utils/pool/pbytes"
	"github.com/go-netty/go-netty/zz_verif/explore"
	"github.com/go-netty/go-netty/zz_verif/vsched"
)

// an abstract pool under test: byte slices or bytes.Buffers
type anyPool interface {
	get(n int) (id uintptr, capacity int, h any)
	put(h any)
	foreign(c int) any
}

type bytesPool struct{ p *pbytes.Pool }

func dataPtr(b []byte) uintptr {
	if cap(b) == 0 {
		return 0
	}
	return uintptr(unsafe.Pointer(&b[:1][0]))
}
func (b bytesPool) get(n int) (uintptr, int, any) {
	s := b.p.Get(n)
	return dataPtr(*s), cap(*s), s
}
func (b bytesPool) put(h any)         { b.p.Put(h.(*[]byte)) }
func (b bytesPool) foreign(c int) any { s := make([]byte, 0, c); return &s }

type bufferPool struct{ p *pbuffer.Pool }

func (b bufferPool) get(n int) (uintptr, int, any) {
	s := b.p.Get(n)
	return uintptr(unsafe.Pointer(s)), s.Cap(), s
}
func (b bufferPool) put(h any)         { b.p.Put(h.(*bytes.Buffer)) }
func (b bufferPool) foreign(c int) any { return bytes.NewBuffer(make([]byte, 0, c)) }

type pop struct {
	Kind string `json:"k"` // "get" | "putf" (foreign buffer of capacity V) | "puth" (held buffer number V)
	V    int    `json:"v"`
}

type poolCase struct {
	Pool string `json:"pool"` // "bytes" | "buffer"
	Max  int    `json:"max"`
	Ops  []pop  `json:"ops"`
}

func mk(kind string, max int) anyPool {
	if kind == "buffer" {
		return bufferPool{pbuffer.New(max)}
	}
	return bytesPool{pbytes.New(max)}
}

type held struct {
	h   any
	id  uintptr
	cap int
}

// runOps replays a history on a fresh pool and checks the invariants after every step.
// It returns the canonical state (what further Gets could observe), a failure or "".
func runOps(kind string, max int, ops []pop) (state string, failKey, failMsg string) {
	p := mk(kind, max)
	var hs []held               // buffers currently owned by the caller
	pooled := map[uintptr]int{} // buffers handed to the pool by Put (identity -> capacity), not yet handed out again
	for i, o := range ops {
		switch o.Kind {
		case "get":
			id, c, h := p.get(o.V)
			if c < o.V {
				return "", "capacity", fmt.Sprintf("%s pool New(%d): after %v, Get(%d) returned capacity %d", kind, max, ops[:i], o.V, c)
			}
			for _, x := range hs {
				if x.id == id && id != 0 {
					return "", "double-handout", fmt.Sprintf("%s pool New(%d): after %v, Get(%d) returned a buffer that is still held by the caller", kind, max, ops[:i], o.V)
				}
			}
			delete(pooled, id)
			hs = append(hs, held{h, id, c})
		case "putf":
			h := p.foreign(o.V)
			switch v := h.(type) {
			case *[]byte:
				pooled[dataPtr(*v)] = o.V
			case *bytes.Buffer:
				pooled[uintptr(unsafe.Pointer(v))] = o.V
			}
			p.put(h)
		case "puth":
			if o.V >= len(hs) {
				return "", "", "" // not applicable
			}
			x := hs[o.V]
			hs = append(hs[:o.V:o.V], hs[o.V+1:]...)
			pooled[x.id] = x.cap
			p.put(x.h)
		}
	}
	// canonical state: capacities still held, in order + multiset of capacities given to the pool
	var hc []int
	for _, x := range hs {
		hc = append(hc, x.cap)
	}
	pc := map[int]int{}
	for _, c := range pooled {
		pc[c]++
	}
	return fmt.Sprint(hc, pc), "", ""
}

func values(step, max int) []int {
	set := map[int]bool{}
	for _, v := range []int{0, 1, step - 1, step, step + 1, 1500, 2000, max - 1, max, max + 1, 2*max - 1, 2 * max, 2*max + 1} {
		if v >= 0 {
			set[v] = true
		}
	}
	for k := 1; 1<<k <= 2*max && k <= 17; k++ {
		for _, d := range []int{-1, 0, 1} {
			set[1<<k+d] = true
		}
	}
	var out []int
	for v := 0; v <= 2*max+1 && v <= 1<<18; v++ {
		if set[v] {
			out = append(out, v)
		}
	}
	return out
}

func historyBFS(kind string, max, depth int, dense bool) *explore.Scenario {
	run := func(c *explore.EnumCtx) {
		step := stepOf(max)
		vals := values(step, max)
		if !dense && len(vals) > 14 {
			// boundary subset for the large default pool: around the step, 1500/2000, two mid classes, the maximum
			keep := map[int]bool{0: true, 1: true, step - 1: true, step: true, step + 1: true, 1500: true, 2000: true, 2*step - 1: true, 2 * step: true, 2*step + 1: true, 4 * step: true, max - 1: true, max: true, max + 1: true, 2 * max: true}
			var v2 []int
			for _, v := range vals {
				if keep[v] {
					v2 = append(v2, v)
				}
			}
			vals = v2
		}
		type node struct{ ops []pop }
		seen := map[string]bool{}
		frontier := []node{{}}
		var states, trans int64
		for d := 0; d < depth; d++ {
			var next []node
			for _, n := range frontier {
				var cand []pop
				for _, v := range vals {
					cand = append(cand, pop{"get", v}, pop{"putf", v})
				}
				for h := 0; h < d; h++ {
					cand = append(cand, pop{"puth", h})
				}
				for _, o := range cand {
					if c.Expired() {
						return
					}
					seq := append(append([]pop{}, n.ops...), o)
					st, fk, fm := runOps(kind, max, seq)
					if st == "" && fk == "" {
						continue
					}
					trans++
					c.Case(st, true, func() any { return poolCase{kind, max, seq} })
					if fk != "" {
						c.Fail(fk+"/"+kind, fm, poolCase{kind, max, seq})
						continue
					}
					key := st
					if !seen[key] {
						seen[key] = true
						states++
						next = append(next, node{seq})
					}
				}
			}
			frontier = next
		}
		c.Count(states, trans)
	}
	return &explore.Scenario{
		Name:  fmt.Sprintf("history-bfs/%s/New(%d)/depth=%d", kind, max, depth),
		Bound: depth,
		Enum:  func(c *explore.EnumCtx) { vsched.Run(vsched.Config{MaxSteps: 1 << 60}, func() { run(c) }) },
		Replay: func(c *explore.EnumCtx, desc json.RawMessage) {
			var pc poolCase
			json.Unmarshal(desc, &pc)
			vsched.Run(vsched.Config{MaxSteps: 1 << 60}, func() {
				if _, fk, fm := runOps(pc.Pool, pc.Max, pc.Ops); fk != "" {
					c.Fail(fk+"/"+pc.Pool, fm, pc)
				}
			})
		},
	}
}

// every single Put(c); Get(n) pair over a dense value range (the default pool)
func pairSweep(kind string, max int, lim int) *explore.Scenario {
	return &explore.Scenario{
		Name:   fmt.Sprintf("put-get-pairs/%s/New(%d)/0..%d", kind, max, lim),
		Shards: 8,
		Enum: func(c *explore.EnumCtx) {
			vsched.Run(vsched.Config{MaxSteps: 1 << 60}, func() {
				// capacities: every value around each shard / power-of-two boundary
				var caps []int
				step := stepOf(max)
				for k := 0; k*step <= lim; k++ {
					for _, d := range []int{-1, 0, 1, step / 2} {
						if v := k*step + d; v >= 0 && v <= lim {
							caps = append(caps, v)
						}
					}
				}
				for _, cp := range caps {
					if !c.Mine() {
						continue
					}
					for _, d := range []int{-1, 0, 1} {
						for _, n := range []int{cp + d, cp/2 + d, cp*2 + d, (cp/step+1)*step + d} {
							if n < 0 || c.Expired() {
								continue
							}
							seq := []pop{{"putf", cp}, {"get", n}, {"get", n}}
							st, fk, fm := runOps(kind, max, seq)
							c.Case(st+fmt.Sprint(cp, n), true, func() any { return poolCase{kind, max, seq} })
							c.Count(0, 3)
							if fk != "" {
								c.Fail(fk+"/"+kind, fm, poolCase{kind, max, seq})
							}
						}
					}
				}
			})
		},
		Replay: func(c *explore.EnumCtx, desc json.RawMessage) {
			var pc poolCase
			json.Unmarshal(desc, &pc)
			vsched.Run(vsched.Config{MaxSteps: 1 << 60}, func() {
				if _, fk, fm := runOps(pc.Pool, pc.Max, pc.Ops); fk != "" {
					c.Fail(fk+"/"+pc.Pool, fm, pc)
				}
			})
		},
	}
}

func isPow2(n int) bool { return n > 0 && n&(n-1) == 0 }

// stepOf: the smallest size class of a pool, observed from outside (capacity of a fresh Get(1)).
func stepOf(max int) int { return cap(*pbytes.New(max).Get(1)) }

func pmathSweep(lim int) *explore.Scenario {
	check := func(c *explore.EnumCtx, n int) {
		if n < 0 {
			return
		}
		var ce, fl int
		panicked := false
		func() {
			defer func() { panicked = recover() != nil }()
			ce = pool.VerifCeil(n)
		}()
		fl = pool.VerifFloor(n)
		c.Case(fmt.Sprint("pmath", n), true, func() any { return fmt.Sprintf("n=%d ceil=%d floor=%d", n, ce, fl) })
		c.Count(0, 1)
		if n == 0 {
			if ce != 0 || fl != 0 {
				c.Fail("pmath/zero", fmt.Sprintf("ceil(0)=%d floor(0)=%d", ce, fl), n)
			}
			return
		}
		if n <= 1<<62 {
			if panicked || !isPow2(ce) || ce < n || ce/2 >= n && n > 1 {
				c.Fail("pmath/ceil", fmt.Sprintf("CeilToPowerOfTwo(%d)=%d (panicked=%v) is not the smallest power of two >= n", n, ce, panicked), n)
			}
		}
		if !isPow2(fl) || fl > n || fl <= n>>1 {
			c.Fail("pmath/floor", fmt.Sprintf("FloorToPowerOfTwo(%d)=%d is not the largest power of two <= n", n, fl), n)
		}
		if pool.VerifIsPow2(n) != isPow2(n) {
			c.Fail("pmath/ispow2", fmt.Sprintf("IsPowerOfTwo(%d)=%v", n, pool.VerifIsPow2(n)), n)
		}
	}
	return &explore.Scenario{
		Name: fmt.Sprintf("pmath/0..%d+boundaries", lim),
		Enum: func(c *explore.EnumCtx) {
			for n := 0; n <= lim; n++ {
				check(c, n)
			}
			for k := 1; k <= 62; k++ {
				for _, d := range []int{-1, 0, 1} {
					check(c, 1<<k+d)
				}
			}
			// size-class consistency, judged behaviourally: a fresh Get(n) has capacity >= n, capacities are
			// monotone in n, and the shard Put uses for that capacity is the shard Get(n) reads (the buffer
			// comes straight back with the always-reuse pool)
			for _, max := range []int{1, 10, 64, 100, 1000, 65536} {
				bp := pbytes.New(max)
				last := 0
				for n := 0; n <= 2*max+2 && n <= 1<<17+2; n++ {
					b := bp.Get(n)
					cl := cap(*b)
					c.Count(0, 1)
					if cl < n || cl < last {
						c.Fail("class", fmt.Sprintf("pool New(%d): fresh Get(%d) has capacity %d (previous size had %d)", max, n, cl, last), n)
					}
					last = cl
					if n <= max && cl > 0 {
						id := dataPtr((*b)[:1])
						s := (*b)[:0]
						bp.Put(&s)
						b2 := bp.Get(n)
						if cap(*b2) < n || (cl >= stepOf(max) && dataPtr((*b2)[:1]) != id) {
							c.Fail("class-put-get", fmt.Sprintf("pool New(%d): a buffer obtained with Get(%d) (capacity %d) and Put back is not what the next Get(%d) returns (capacity %d): Put and Get disagree on the size class", max, n, cl, n, cap(*b2)), n)
						}
					}
				}
			}
		},
	}
}

// two goroutines using one size class concurrently
func concurrent(bound int) *explore.Scenario {
	type cobs struct {
		fail string
	}
	return &explore.Scenario{
		Name:  "concurrent-get-put",
		Bound: bound,
		Cache: true,
		Cfg:   vsched.Config{MaxSteps: 4000},
		Init:  func() any { return &cobs{} },
		Body: func(v any) {
			o := v.(*cobs)
			p := pbytes.New(65536)
			owner := map[uintptr]int{}
			worker := func(me int) func() {
				return func() {
					for round := 0; round < 2; round++ {
						b := p.Get(1024)
						id := dataPtr(*b)
						if who, taken := owner[id]; taken && o.fail == "" {
							o.fail = fmt.Sprintf("goroutine %d obtained a buffer still held by goroutine %d", me, who)
						}
						owner[id] = me
						s := (*b)[:cap(*b)]
						for i := range s {
							s[i] = byte(me)
						}
						vsched.Yield("use buffer")
						for i := range s {
							if s[i] != byte(me) && o.fail == "" {
								o.fail = fmt.Sprintf("buffer of goroutine %d was overwritten while held", me)
							}
						}
						delete(owner, id)
						s = s[:0]
						p.Put(&s)
					}
				}
			}
			a := vsched.Go("a", worker(1))
			b := vsched.Go("b", worker(2))
			vsched.Join(a)
			vsched.Join(b)
		},
		Outcome: func(x *vsched.Exec, v any) string { return fmt.Sprint(v.(*cobs).fail, x.Steps()) },
		Check: func(x *vsched.Exec, v any) []explore.Finding {
			if f := v.(*cobs).fail; f != "" {
				return []explore.Finding{{Key: "concurrent-ownership", Msg: f}}
			}
			return nil
		},
	}
}

func build(tier string) []*explore.Scenario {
	depth, lim := 4, 1<<17+2
	scs := []*explore.Scenario{}
	for _, kind := range []string{"bytes", "buffer"} {
		scs = append(scs,
			historyBFS(kind, 65536, depth, false),
			historyBFS(kind, 64, depth, true),
			historyBFS(kind, 10, depth, true),
			pairSweep(kind, 65536, lim),
		)
	}
	if tier == "thorough" {
		scs = append(scs, historyBFS("bytes", 65536, 5, false), historyBFS("bytes", 1000, 4, false), historyBFS("buffer", 64, 5, true))
	}
	scs = append(scs, pmathSweep(lim), concurrent(3))
	return scs
}

func main() {
	explore.Main(explore.Spec{
		Property: "C19",
		Rule:     "breadth-first search over Get(n) / Put(foreign buffer of capacity c) / Put(held buffer) histories to depth 4 (thorough 5) on fresh real pools (pbytes and pbuffer; New(65536) with boundary values around the step, 1500/2000, class and maximum boundaries; New(64), New(10) with every 2^k-1,2^k,2^k+1), states deduplicated by (held capacities, pooled capacities); a dense Put(c);Get(n);Get(n) sweep around every shard boundary up to 2^17; pmath functions for every n in 0..2^17+2 and 2^k-1,2^k,2^k+1 up to 2^62; two goroutines sharing one class under the scheduler. Invariants after every step: capacity >= n, no buffer handed out while still held. distinct = distinct canonical states / cases",
		Assume:   []string{"sync.Pool modelled as deterministic always-reuse LIFO (maximal reuse)", "Put is only called with buffers the caller owns (double Put is caller misuse)"},
		Build:    build,
	})
}
