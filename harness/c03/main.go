//go:build verif

// C03: pipeline order and event routing match the handler-list model.
package main

import (
	"context"
	"encoding/json"
	"errors"
	"fmt"
	"strings"

	netty "github.com/go-netty/go-netty"
	"github.com/go-netty/go-netty/zz_verif/explore"
	"github.com/go-netty/go-netty/zz_verif/hlib"
	"github.com/go-netty/go-netty/zz_verif/mock"
	"github.com/go-netty/go-netty/zz_verif/probes"
	"github.com/go-netty/go-netty/zz_verif/vsched"
)

// ---------------------------------------------------------------- build operations + model

type op struct {
	Kind string `json:"k"` // "first" | "last" | "at"
	Pos  int    `json:"p,omitempty"`
	Hs   []int  `json:"h"` // handler indexes into the instance table
}

func (o op) String() string {
	if o.Kind == "at" {
		return fmt.Sprintf("AddHandler(%d,%v)", o.Pos, o.Hs)
	}
	return fmt.Sprintf("Add%s(%v)", strings.Title(o.Kind), o.Hs)
}

// model: the user handlers between head and tail, as instance indexes.
func applyModel(m []int, o op) []int {
	switch o.Kind {
	case "first":
		for _, h := range o.Hs {
			m = append([]int{h}, m...)
		}
	case "last":
		m = append(append([]int{}, m...), o.Hs...)
	case "at":
		size := len(m) + 2
		if o.Pos == -1 || o.Pos == size-1 {
			return append(append([]int{}, m...), o.Hs...)
		}
		// insert after overall index Pos == user index Pos
		n := append([]int{}, m[:o.Pos]...)
		n = append(n, o.Hs...)
		n = append(n, m[o.Pos:]...)
		m = n
	}
	return m
}

func applyReal(pl netty.Pipeline, o op, inst []netty.Handler) {
	hs := make([]netty.Handler, len(o.Hs))
	for i, h := range o.Hs {
		hs[i] = inst[h]
	}
	switch o.Kind {
	case "first":
		pl.AddFirst(hs...)
	case "last":
		pl.AddLast(hs...)
	case "at":
		// "look at position p, then insert there": any lookup state a pipeline may keep between calls is
		// left pointing at the insertion position
		_ = pl.ContextAt(o.Pos)
		pl.AddHandler(o.Pos, hs...)
	}
}

// newInstances creates n probe handlers with the given interface masks.
func newInstances(masks []int, rec *probes.Recorder) ([]netty.Handler, []*probes.Base) {
	var hs []netty.Handler
	var bs []*probes.Base
	for i, m := range masks {
		b := &probes.Base{ID: i, Rec: rec}
		hs = append(hs, probes.New(m, b))
		bs = append(bs, b)
	}
	return hs, bs
}

func idOf(h netty.Handler, inst []netty.Handler) int {
	for i, x := range inst {
		if x == h {
			return i
		}
	}
	return -1 // head / tail / foreign
}

// readForward / readBackward read the whole list through the public API with a
// recording predicate that never matches.
func readForward(pl netty.Pipeline, inst []netty.Handler) (seq []int, ret int) {
	ret = pl.IndexOf(func(h netty.Handler) bool { seq = append(seq, idOf(h, inst)); return false })
	return
}
func readBackward(pl netty.Pipeline, inst []netty.Handler) (seq []int, ret int) {
	ret = pl.LastIndexOf(func(h netty.Handler) bool { seq = append(seq, idOf(h, inst)); return false })
	return
}

func eqInts(a, b []int) bool {
	if len(a) != len(b) {
		return false
	}
	for i := range a {
		if a[i] != b[i] {
			return false
		}
	}
	return true
}

// checkStructure compares every structural query with the model; returns "" or a description.
func checkStructure(pl netty.Pipeline, inst []netty.Handler, m []int) (string, string) {
	want := append(append([]int{-1}, m...), -1)
	fw, r1 := readForward(pl, inst)
	if !eqInts(fw, want) || r1 != -1 {
		return "forward-order", fmt.Sprintf("head->tail traversal (IndexOf) sees %v (ret %d), model %v", fw, r1, want)
	}
	bw, r2 := readBackward(pl, inst)
	rev := make([]int, len(want))
	for i, v := range want {
		rev[len(want)-1-i] = v
	}
	if !eqInts(bw, rev) || r2 != -1 {
		return "backward-order", fmt.Sprintf("tail->head traversal (LastIndexOf) sees %v (ret %d), model reversed %v", bw, r2, rev)
	}
	if pl.Size() != len(want) {
		return "size", fmt.Sprintf("Size()=%d, model %d", pl.Size(), len(want))
	}
	for id := range inst {
		first, last := -1, -1
		for i, v := range want {
			if v == id {
				if first < 0 {
					first = i
				}
				last = i
			}
		}
		h := inst[id]
		if got := pl.IndexOf(func(x netty.Handler) bool { return x == h }); got != first {
			return "indexof", fmt.Sprintf("IndexOf(h%d)=%d, model %d (list %v)", id, got, first, want)
		}
		if got := pl.LastIndexOf(func(x netty.Handler) bool { return x == h }); got != last {
			return "lastindexof", fmt.Sprintf("LastIndexOf(h%d)=%d, model %d (list %v)", id, got, last, want)
		}
	}
	// far end first, then ascending: a lookup must not depend on the lookups before it
	var order []int
	for i := len(want); i >= -1; i-- {
		order = append(order, i)
	}
	for i := -1; i <= len(want); i++ {
		order = append(order, i)
	}
	for _, i := range order {
		c := pl.ContextAt(i)
		if i < 0 || i >= len(want) {
			if c != nil {
				return "contextat-range", fmt.Sprintf("ContextAt(%d) is not nil for a list of %d", i, len(want))
			}
			continue
		}
		if c == nil {
			return "contextat-nil", fmt.Sprintf("ContextAt(%d) is nil for a list of %d", i, len(want))
		}
		if got := idOf(c.Handler(), inst); got != want[i] {
			return "contextat-handler", fmt.Sprintf("ContextAt(%d).Handler() is h%d, model h%d (list %v)", i, got, want[i], want)
		}
	}
	return "", ""
}

// ---------------------------------------------------------------- phase A: BFS over build sequences

func buildOps(size int, nInst int, pairs bool) []op {
	var hsets [][]int
	for a := 0; a < nInst; a++ {
		hsets = append(hsets, []int{a})
	}
	if pairs {
		for a := 0; a < nInst; a++ {
			for b := 0; b < nInst; b++ {
				hsets = append(hsets, []int{a, b})
			}
		}
	}
	var ops []op
	for _, hs := range hsets {
		ops = append(ops, op{Kind: "first", Hs: hs}, op{Kind: "last", Hs: hs})
		for pos := -1; pos < size; pos++ {
			ops = append(ops, op{Kind: "at", Pos: pos, Hs: hs})
		}
	}
	return ops
}

func replay(ops []op, masks []int) (netty.Pipeline, []netty.Handler, []int) {
	pl := netty.NewPipeline()
	inst, _ := newInstances(masks, nil)
	var m []int
	for _, o := range ops {
		applyReal(pl, o, inst)
		m = applyModel(m, o)
	}
	return pl, inst, m
}

func structureBFS(depth int) *explore.Scenario {
	masks := []int{63, 63, 63}
	run := func(c *explore.EnumCtx, only []op) {
		type node struct{ ops []op }
		seen := map[string]bool{"": true}
		frontier := []node{{}}
		var states, trans int64 = 1, 0
		if only != nil {
			frontier = nil
			pl, inst, m := replay(only, masks)
			if k, msg := checkStructure(pl, inst, m); k != "" {
				c.Fail("structure/"+k, msg, only)
			}
			return
		}
		for d := 0; d < depth && len(frontier) > 0; d++ {
			var next []node
			for _, n := range frontier {
				_, _, m0 := replay(n.ops, masks)
				for _, o := range buildOps(len(m0)+2, len(masks), true) {
					if c.Expired() {
						return
					}
					seq := append(append([]op{}, n.ops...), o)
					pl, inst, m := replay(seq, masks)
					trans++
					k, msg := checkStructure(pl, inst, m)
					fw, _ := readForward(pl, inst)
					bw, _ := readBackward(pl, inst)
					key := fmt.Sprint(fw, bw, pl.Size())
					c.Case(key, true, func() any { return fmt.Sprint(seq) })
					if k != "" {
						c.Fail("structure/"+k, fmt.Sprintf("after %v: %s", seq, msg), seq)
						continue // do not expand broken states
					}
					if !seen[key] {
						seen[key] = true
						states++
						next = append(next, node{seq})
					}
				}
			}
			frontier = next
		}
		c.Count(states, trans)
	}
	return &explore.Scenario{
		Name:  fmt.Sprintf("structure-bfs(depth=%d)", depth),
		Bound: depth,
		Enum:  func(c *explore.EnumCtx) { inRun(func() { run(c, nil) }) },
		Replay: func(c *explore.EnumCtx, desc json.RawMessage) {
			var ops []op
			json.Unmarshal(desc, &ops)
			inRun(func() { run(c, ops) })
		},
	}
}

func inRun(f func()) {
	vsched.Run(vsched.Config{MaxSteps: 1 << 60}, f)
}

// ---------------------------------------------------------------- phase B: routing

type routeCase struct {
	Masks []int  `json:"masks"` // user handlers in pipeline order
	Build int    `json:"build"` // construction variant
	Kind  int    `json:"kind"`
	Entry string `json:"entry"` // "pipeline" | "channel" | "ctx@<i>"
	Pos   int    `json:"pos"`
	Fwd   int    `json:"fwd"` // bit i: user handler i forwards
}

var errBoom = errors.New("boom")

// buildShape constructs the pipeline [masks...] in one of several ways.
func buildShape(masks []int, variant int, rec *probes.Recorder) (netty.Pipeline, []netty.Handler, []*probes.Base) {
	pl := netty.NewPipeline()
	inst, bases := newInstances(masks, rec)
	switch variant % 3 {
	case 0:
		pl.AddLast(inst...)
	case 1: // AddFirst one by one in reverse
		for i := len(inst) - 1; i >= 0; i-- {
			pl.AddFirst(inst[i])
		}
	case 2: // last element first, then the rest inserted after head in order
		if len(inst) > 0 {
			pl.AddLast(inst[len(inst)-1])
			if len(inst) > 1 {
				pl.AddHandler(0, inst[:len(inst)-1]...)
			}
		}
	}
	return pl, inst, bases
}

func runRoute(rc routeCase) (string, string) {
	rec := &probes.Recorder{}
	pl, inst, bases := buildShape(rc.Masks, rc.Build, rec)
	for i, b := range bases {
		for k := 0; k < probes.NKinds; k++ {
			if rc.Fwd>>i&1 == 1 {
				b.Act[k] = probes.Forward
			}
		}
	}
	tr := mock.NewTransport("t")
	ch := netty.NewChannel()(1, context.Background(), pl, tr, netty.AsyncExecutor())
	hlib.AttachChannel(pl, ch)
	payload := &struct{ x int }{7}
	var msg any = []byte("payload")
	_ = payload
	start, dirFwd := 0, true // start: first candidate user index; direction
	n := len(rc.Masks)
	switch rc.Entry {
	case "pipeline":
		switch rc.Kind {
		case probes.KActive:
			pl.FireChannelActive()
		case probes.KRead:
			pl.FireChannelRead(msg)
		case probes.KWrite:
			pl.FireChannelWrite(msg)
			start, dirFwd = n-1, false
		case probes.KException:
			pl.FireChannelException(errBoom)
		case probes.KInactive:
			pl.FireChannelInactive(errBoom)
		case probes.KEvent:
			pl.FireChannelEvent(payload)
		}
	case "channel":
		if rc.Kind == probes.KWrite {
			if err := ch.Write(msg); err != nil {
				return "channel-write-error", err.Error()
			}
			start, dirFwd = n-1, false
		} else {
			ch.Trigger(payload)
		}
	case "ctx":
		c := pl.ContextAt(rc.Pos)
		if rc.Kind == probes.KWrite {
			c.Write(msg)
			start, dirFwd = rc.Pos-2, false // handlers before overall index Pos
		} else {
			c.Trigger(payload)
			start = rc.Pos // user indexes after overall index Pos
		}
	}
	// model
	var want []int
	passedEnd := true
	for i := start; i >= 0 && i < n; {
		if rc.Masks[i]>>rc.Kind&1 == 1 {
			want = append(want, i)
			if rc.Fwd>>i&1 == 0 {
				passedEnd = false
				break
			}
		}
		if dirFwd {
			i++
		} else {
			i--
		}
	}
	if rc.Entry == "ctx" && rc.Kind == probes.KWrite && rc.Pos == 0 {
		passedEnd = false // writing from the head's own context: nothing lies before it, not even the head handler
	}
	// an exception nobody consumed closes the channel, which delivers inactive: those
	// follow-on visits are a consequence of the close, not part of the routed event
	var primary []probes.Visit
	for _, v := range rec.Visits {
		if rc.Kind == probes.KException && v.Kind == probes.KInactive {
			if !passedEnd {
				return "spurious-inactive", fmt.Sprintf("inactive delivered although the exception was consumed (masks %v fwd %b)", rc.Masks, rc.Fwd)
			}
			continue
		}
		primary = append(primary, v)
	}
	var got []int
	for _, v := range primary {
		got = append(got, v.H.ID)
	}
	desc := func() string {
		return fmt.Sprintf("pipeline masks %v (build %d), %s via %s@%d, forwarders %b: visited %v", rc.Masks, rc.Build, probes.KindNames[rc.Kind], rc.Entry, rc.Pos, rc.Fwd, rec.Visits)
	}
	if !eqInts(got, want) {
		return "route/" + probes.KindNames[rc.Kind] + "/" + rc.Entry, desc() + fmt.Sprintf(", model %v", want)
	}
	for _, v := range primary {
		if v.Kind != rc.Kind {
			return "route-kind", desc() + ": handler invoked with another event kind"
		}
		if !v.SelfOK {
			return "context-handler", desc() + ": ctx.Handler() is not the invoked handler"
		}
		if v.Ctx != pl.ContextAt(v.H.ID+1) {
			return "context-position", desc() + fmt.Sprintf(": h%d invoked with a context that is not ContextAt(%d)", v.H.ID, v.H.ID+1)
		}
		if rc.Kind == probes.KRead || rc.Kind == probes.KWrite {
			if b, ok := v.Payload.([]byte); !ok || string(b) != "payload" {
				return "payload", desc() + ": message altered on the way"
			}
		} else if rc.Kind == probes.KEvent && v.Payload != any(payload) {
			return "payload", desc() + ": event altered on the way"
		} else if (rc.Kind == probes.KException || rc.Kind == probes.KInactive) && v.Payload != any(errBoom) {
			return "payload", desc() + ": exception altered on the way"
		}
	}
	_ = inst
	// effects at the ends of the pipeline
	wrote := len(tr.Wire()) > 0
	closed := tr.Closes > 0
	wantWrote := rc.Kind == probes.KWrite && passedEnd
	wantClosed := rc.Kind == probes.KException && passedEnd
	if wrote != wantWrote {
		return "head-write", desc() + fmt.Sprintf(": transport written=%v, model %v (log %s)", wrote, wantWrote, tr.LogString())
	}
	if wantWrote && string(tr.Wire()) != "payload" {
		return "head-write-bytes", desc() + ": wrong bytes written: " + tr.LogString()
	}
	if closed != wantClosed {
		return "tail-close", desc() + fmt.Sprintf(": channel closed=%v, model %v", closed, wantClosed)
	}
	return "", ""
}

func routing(name string, alphabet []int, maxLen int, thorough bool) *explore.Scenario {
	enum := func(c *explore.EnumCtx) {
		var shapes [][]int
		var rec func(cur []int)
		rec = func(cur []int) {
			shapes = append(shapes, append([]int{}, cur...))
			if len(cur) == maxLen {
				return
			}
			for _, m := range alphabet {
				rec(append(cur, m))
			}
		}
		rec(nil)
		for si, sh := range shapes {
			if !c.Mine() {
				continue
			}
			n := len(sh)
			for kind := 0; kind < probes.NKinds; kind++ {
				// forwarding vectors only matter for handlers implementing the kind
				for fwd := 0; fwd < 1<<n; fwd++ {
					skip := false
					for i := 0; i < n; i++ {
						if sh[i]>>kind&1 == 0 && fwd>>i&1 == 1 {
							skip = true
						}
					}
					if skip {
						continue
					}
					entries := []routeCase{{Entry: "pipeline"}}
					if kind == probes.KWrite || kind == probes.KEvent {
						entries = append(entries, routeCase{Entry: "channel"})
						for pos := 0; pos < n+2; pos++ {
							entries = append(entries, routeCase{Entry: "ctx", Pos: pos})
						}
					}
					for _, e := range entries {
						if c.Expired() {
							return
						}
						rc := routeCase{Masks: sh, Build: si, Kind: kind, Entry: e.Entry, Pos: e.Pos, Fwd: fwd}
						k, msg := runRoute(rc)
						c.Case(fmt.Sprint(sh, kind, e.Entry, e.Pos, fwd), n > 0, func() any { return rc })
						c.Count(0, 1)
						if k != "" {
							c.Fail(k, msg, rc)
						}
					}
				}
			}
		}
		c.Count(int64(len(shapes)), 0)
	}
	return &explore.Scenario{
		Name:   name,
		Shards: 8,
		Enum:   func(c *explore.EnumCtx) { inRun(func() { enum(c) }) },
		Replay: func(c *explore.EnumCtx, desc json.RawMessage) {
			var rc routeCase
			json.Unmarshal(desc, &rc)
			inRun(func() {
				if k, msg := runRoute(rc); k != "" {
					c.Fail(k, msg, rc)
				}
			})
		},
	}
}

// ---------------------------------------------------------------- phase C: events between build operations

type growCase struct {
	Masks []int  `json:"masks"`
	Build int    `json:"build"`
	New   int    `json:"new_mask"`
	Op    op     `json:"op"` // how the new handler (instance index len(Masks)) is added
	Kind  int    `json:"kind"`
	Entry string `json:"entry"`
}

// runGrow: build, fire an event (all handlers forward), add one more handler, fire again;
// both deliveries must match the model of the list as it is at that moment.
func runGrow(gc growCase) (string, string) {
	rec := &probes.Recorder{}
	masks := append(append([]int{}, gc.Masks...), gc.New)
	pl := netty.NewPipeline()
	inst, bases := newInstances(masks, rec)
	for _, b := range bases {
		for k := 0; k < probes.NKinds; k++ {
			b.Act[k] = probes.Forward
		}
	}
	n := len(gc.Masks)
	switch gc.Build % 2 {
	case 0:
		pl.AddLast(inst[:n]...)
	case 1:
		for i := n - 1; i >= 0; i-- {
			pl.AddFirst(inst[i])
		}
	}
	tr := mock.NewTransport("t")
	ch := netty.NewChannel()(1, context.Background(), pl, tr, netty.AsyncExecutor())
	hlib.AttachChannel(pl, ch)
	model := make([]int, n)
	for i := range model {
		model[i] = i
	}
	fire := func() []int {
		rec.Visits = rec.Visits[:0]
		msg := []byte("payload")
		ev := &struct{ x int }{1}
		switch {
		case gc.Kind == probes.KWrite && gc.Entry == "channel":
			ch.Write(msg)
		case gc.Kind == probes.KWrite && gc.Entry == "tailctx":
			pl.ContextAt(pl.Size() - 1).Write(msg)
		case gc.Kind == probes.KWrite:
			pl.FireChannelWrite(msg)
		case gc.Kind == probes.KEvent && gc.Entry == "channel":
			ch.Trigger(ev)
		case gc.Kind == probes.KEvent && gc.Entry == "headctx":
			pl.ContextAt(0).Trigger(ev)
		case gc.Kind == probes.KEvent:
			pl.FireChannelEvent(ev)
		case gc.Kind == probes.KActive:
			pl.FireChannelActive()
		case gc.Kind == probes.KRead:
			pl.FireChannelRead(msg)
		case gc.Kind == probes.KException:
			pl.FireChannelException(errBoom)
		case gc.Kind == probes.KInactive:
			pl.FireChannelInactive(errBoom)
		}
		var got []int
		for _, v := range rec.Visits {
			if v.Kind == gc.Kind {
				got = append(got, v.H.ID)
			}
		}
		return got
	}
	want := func() []int {
		var w []int
		for _, id := range model {
			if masks[id]>>gc.Kind&1 == 1 {
				w = append(w, id)
			}
		}
		if gc.Kind == probes.KWrite {
			for i, j := 0, len(w)-1; i < j; i, j = i+1, j-1 {
				w[i], w[j] = w[j], w[i]
			}
		}
		return w
	}
	desc := func(stage string, got, w []int) string {
		return fmt.Sprintf("pipeline masks %v (build %d), %s via %s: %s visited %v, model %v (new handler mask %d added by %v)", gc.Masks, gc.Build, probes.KindNames[gc.Kind], gc.Entry, stage, got, w, gc.New, gc.Op)
	}
	if got, w := fire(), want(); !eqInts(got, w) {
		return "route-before-growth/" + probes.KindNames[gc.Kind], desc("first delivery", got, w)
	}
	o := gc.Op
	o.Hs = []int{n}
	applyReal(pl, o, inst)
	model = applyModel(model, o)
	if k, m := checkStructure(pl, inst, model); k != "" {
		return "structure-after-events/" + k, m
	}
	if got, w := fire(), want(); !eqInts(got, w) {
		return "route-after-growth/" + probes.KindNames[gc.Kind] + "/" + gc.Entry, desc("delivery after adding a handler", got, w)
	}
	return "", ""
}

func growth(alphabet []int, maxLen int) *explore.Scenario {
	return &explore.Scenario{
		Name:   fmt.Sprintf("routing after growth(%d types,len<=%d)", len(alphabet), maxLen),
		Shards: 8,
		Enum: func(c *explore.EnumCtx) {
			inRun(func() {
				var shapes [][]int
				var rec func(cur []int)
				rec = func(cur []int) {
					shapes = append(shapes, append([]int{}, cur...))
					if len(cur) == maxLen {
						return
					}
					for _, m := range alphabet {
						rec(append(cur, m))
					}
				}
				rec(nil)
				type ke struct {
					kind  int
					entry string
				}
				kes := []ke{{probes.KWrite, "pipeline"}, {probes.KWrite, "channel"}, {probes.KWrite, "tailctx"}, {probes.KEvent, "pipeline"}, {probes.KEvent, "channel"}, {probes.KEvent, "headctx"}, {probes.KActive, "pipeline"}, {probes.KRead, "pipeline"}, {probes.KException, "pipeline"}, {probes.KInactive, "pipeline"}}
				for si, sh := range shapes {
					if !c.Mine() {
						continue
					}
					var ops []op
					ops = append(ops, op{Kind: "first"}, op{Kind: "last"})
					for pos := -1; pos < len(sh)+2; pos++ {
						ops = append(ops, op{Kind: "at", Pos: pos})
					}
					for _, nm := range alphabet {
						for _, o := range ops {
							for _, k := range kes {
								if c.Expired() {
									return
								}
								gc := growCase{Masks: sh, Build: si, New: nm, Op: o, Kind: k.kind, Entry: k.entry}
								key, msg := runGrow(gc)
								c.Case(fmt.Sprint(gc), true, func() any { return gc })
								c.Count(0, 2)
								if key != "" {
									c.Fail(key, msg, gc)
								}
							}
						}
					}
				}
			})
		},
		Replay: func(c *explore.EnumCtx, desc json.RawMessage) {
			var gc growCase
			json.Unmarshal(desc, &gc)
			inRun(func() {
				if k, m := runGrow(gc); k != "" {
					c.Fail(k, m, gc)
				}
			})
		},
	}
}

// admission: a handler implementing none of the interfaces is rejected by every Add*.
func admission() *explore.Scenario {
	return &explore.Scenario{
		Name: "admission",
		Enum: func(c *explore.EnumCtx) {
			for i, add := range []func(pl netty.Pipeline, h netty.Handler){
				func(pl netty.Pipeline, h netty.Handler) { pl.AddFirst(h) },
				func(pl netty.Pipeline, h netty.Handler) { pl.AddLast(h) },
				func(pl netty.Pipeline, h netty.Handler) { pl.AddHandler(0, h) },
				func(pl netty.Pipeline, h netty.Handler) { pl.AddHandler(-1, h) },
			} {
				pl := netty.NewPipeline()
				panicked := false
				func() {
					defer func() { panicked = recover() != nil }()
					add(pl, struct{ x int }{1})
				}()
				c.Case(fmt.Sprint("admission", i), true, func() any { return fmt.Sprint("add variant ", i, " with a handler implementing no interface") })
				if !panicked || pl.Size() != 2 {
					c.Fail("admission", fmt.Sprintf("add variant %d accepted a handler that implements none of the handler interfaces (size now %d)", i, pl.Size()), i)
				}
			}
			// out-of-range position is rejected
			pl := netty.NewPipeline()
			inst, _ := newInstances([]int{63}, nil)
			panicked := false
			func() {
				defer func() { panicked = recover() != nil }()
				pl.AddHandler(2, inst[0])
			}()
			c.Case("admission-pos", true, nil)
			if !panicked {
				c.Fail("admission-position", "AddHandler(size, h) was accepted", 0)
			}
		},
	}
}

func build(tier string) []*explore.Scenario {
	eleven := []int{1, 2, 4, 8, 16, 32, 63, 1 | 2 | 16, 1 | 4 | 16, 2 | 4, 8 | 32}
	all := make([]int, 0, 63)
	for m := 1; m < 64; m++ {
		all = append(all, m)
	}
	if tier == "thorough" {
		return []*explore.Scenario{structureBFS(5), routing("routing(11 types,len<=4)", eleven, 4, true), routing("routing(63 types,len<=2)", all, 2, true), growth(eleven, 3), admission()}
	}
	return []*explore.Scenario{structureBFS(4), routing("routing(11 types,len<=3)", eleven, 3, false), routing("routing(63 types,len<=2)", all, 2, false), growth(eleven, 2), admission()}
}

func main() {
	explore.Main(explore.Spec{
		Property:    "C03",
		Rule:        "(A) breadth-first search over all build sequences (AddFirst/AddLast/AddHandler at every legal position, 1-2 handlers per call, 3 handler instances with repetition) to depth 4 (thorough 5): each successor is built by replaying the sequence on a fresh real pipeline; states are deduplicated by the handler list read through the public API in both directions; every transition is compared with a slice model (Size, IndexOf, LastIndexOf, ContextAt, both traversals). (B) for every pipeline shape over handler types implementing subsets of the six interfaces (11 types x length<=3(4), all 63 types x length<=2), built three different ways: every event kind x entry point (pipeline Fire*, Channel.Write/Trigger, ctx.Write/ctx.Trigger from every position) x forwarding bit-vector against the model's filtered head->tail / tail->head order, context identity, payload identity, write-to-channel and close-on-unhandled-exception effects. (C) events between build operations: build a shape, deliver an event, add one more handler (AddFirst/AddLast/AddHandler at every position), deliver again - both deliveries against the model of the list at that moment. distinct = distinct canonical states / distinct cases",
		Assume:      []string{"AddFirst(h1,h2) is defined as AddFirst(h1) followed by AddFirst(h2) (the code's documented loop), i.e. the model mirrors each call's stated composition", "sequential (single goroutine) use as the property requires"},
		Build:       build,
		QuickBudget: 0,
	})
}
