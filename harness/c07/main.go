//go:build verif

// C07: handler panics and transport failures are contained and routed as exceptions.
package main

import (
	"context"
	"encoding/binary"
	"encoding/json"
	"errors"
	"fmt"
	"io"
	"net"
	"strings"
	"time"

	netty "github.com/go-netty/go-netty"
	"github.com/go-netty/go-netty/codec/frame"
	"github.com/go-netty/go-netty/zz_verif/explore"
	"github.com/go-netty/go-netty/zz_verif/hlib"
	"github.com/go-netty/go-netty/zz_verif/mock"
	"github.com/go-netty/go-netty/zz_verif/probes"
	"github.com/go-netty/go-netty/zz_verif/vsched"
)

type fcase struct {
	Cfg    hlib.ChanCfg `json:"cfg"`
	Shape  string       `json:"shape"`  // none | forward-all | swallow@0 | swallow@1 | swallow@2
	Faulty int          `json:"faulty"` // index of the panicking handler (0..2); -1: none (transport faults)
	Kind   string       `json:"kind"`   // active | read | write | event
	Entry  string       `json:"entry"`  // readloop | Channel.Write | Channel.Trigger | ctx.Write | ctx.Trigger | idle-timer
	Val    string       `json:"val"`    // error | string | runtime | net-timeout | net-fatal
	State  string       `json:"state"`  // open | closing | closed
	// transport faults
	TOp string `json:"top,omitempty"` // write | flush | read
	TAt int    `json:"tat,omitempty"` // 1-based call number that fails
	// Codec (read faults only): a shipped frame decoder sits in front and the failing read lands inside a
	// frame body that the next handler reads to its end
	Codec string `json:"codec,omitempty"`
}

func (f fcase) name() string {
	if f.TOp != "" {
		if f.Codec != "" {
			return fmt.Sprintf("%s/transport-%s@%d inside a %s frame body/%s/%s", f.Cfg, f.TOp, f.TAt, f.Codec, f.Val, f.Shape)
		}
		return fmt.Sprintf("%s/transport-%s@%d/%s/%s", f.Cfg, f.TOp, f.TAt, f.Val, f.Shape)
	}
	return fmt.Sprintf("%s/%s/h%d.%s via %s/%s/%s", f.Cfg, f.Shape, f.Faulty, f.Kind, f.Entry, f.Val, f.State)
}

var (
	errSentinel = errors.New("sentinel handler failure")
	errFatalNet = &net.OpError{Op: "verif", Net: "mock", Err: errors.New("fatal network failure")}
	errPre      = errors.New("closed beforehand")
	errCloser   = errors.New("concurrent close")
)

func panicVal(kind string) any {
	switch kind {
	case "error":
		return errSentinel
	case "string":
		return "boom (a string)"
	case "net-timeout":
		return mock.TimeoutErr{}
	case "net-fatal":
		return errFatalNet
	}
	return nil // runtime: produced by a real nil-map write
}

func kindIndex(k string) int {
	switch k {
	case "active":
		return probes.KActive
	case "read":
		return probes.KRead
	case "write":
		return probes.KWrite
	}
	return probes.KEvent
}

// decoder reads the transport and forwards the bytes (first handler).
type decoder struct {
	reads int
}

func (d *decoder) HandleRead(ctx netty.InboundContext, msg netty.Message) {
	var b [64]byte
	n, err := msg.(io.Reader).Read(b[:])
	if err != nil {
		panic(err)
	}
	d.reads++
	ctx.HandleRead(append([]byte{}, b[:n]...))
}

// bodyReader is the handler behind a frame decoder: it reads the frame body to its end.
type bodyReader struct{}

func (bodyReader) HandleRead(ctx netty.InboundContext, msg netty.Message) {
	b, err := io.ReadAll(msg.(io.Reader))
	if err != nil {
		panic(err)
	}
	ctx.HandleRead(b)
}

type obs struct {
	fc        fcase
	env       *hlib.Env
	rec       *probes.Recorder
	bases     []*probes.Base
	escaped   any // a panic that escaped into the caller of the entry point
	thrown    any // the value the faulty handler panicked with
	served    bool
	follow    string // result of the follow-up usability probe
	delivered bool   // the event reached the faulty handler
	closerRan bool
}

func buildScenario(fc fcase) *explore.Scenario {
	bound := 1
	if fc.State == "closing" {
		bound = 2
	}
	return &explore.Scenario{
		Name:  fc.name(),
		Bound: bound,
		Cache: true,
		Cfg:   vsched.Config{MaxSteps: 8000, Horizon: int64(3 * time.Second)},
		Init:  func() any { return &obs{fc: fc, rec: &probes.Recorder{}} },
		Body: func(v any) {
			o := v.(*obs)
			kind := kindIndex(fc.Kind)
			masks := []int{63, 63, 63}
			swallow := -1
			switch {
			case fc.Shape == "none":
				masks = []int{63 &^ 8, 63 &^ 8, 63 &^ 8}
			case strings.HasPrefix(fc.Shape, "swallow@"):
				fmt.Sscanf(fc.Shape, "swallow@%d", &swallow)
			}
			var hs []netty.Handler
			for i, m := range masks {
				b := &probes.Base{ID: i, Rec: o.rec, Once: true}
				for k := 0; k < probes.NKinds; k++ {
					b.Act[k] = probes.Forward
				}
				if i == swallow {
					b.Act[probes.KException] = probes.Swallow
				}
				if i == fc.Faulty {
					if fc.Val == "runtime" {
						b.Hook = func(k int, ctx netty.HandlerContext, payload any) {
							if k == kind && o.thrown == nil {
								o.delivered = true
								defer func() {
									r := recover()
									o.thrown = r
									panic(r)
								}()
								var m map[string]int
								m["x"] = 1
							}
						}
					} else {
						b.Act[kind] = probes.Panic
						b.PanicVal = panicVal(fc.Val)
						b.Hook = func(k int, ctx netty.HandlerContext, payload any) {
							if k == kind && o.thrown == nil {
								o.delivered = true
								o.thrown = b.PanicVal
							}
						}
					}
				}
				o.bases = append(o.bases, b)
				hs = append(hs, probes.New(m, b))
			}
			all := []netty.Handler{&decoder{}}
			switch fc.Codec {
			case "lengthfield":
				all = []netty.Handler{frame.LengthFieldCodec(binary.BigEndian, 1024, 0, 2, 0, 2), bodyReader{}}
			case "fixed":
				all = []netty.Handler{frame.FixedLengthCodec(5), bodyReader{}}
			case "varint":
				all = []netty.Handler{frame.VarintLengthFieldCodec(1024), bodyReader{}}
			}
			if fc.Entry == "idle-timer" {
				all = append([]netty.Handler{netty.ReadIdleHandler(time.Second)}, all...)
			}
			all = append(all, hs...)
			e := &hlib.Env{T: mock.NewTransport("t1")}
			o.env = e
			switch fc.TOp {
			case "write":
				e.T.FailWriteAt = fc.TAt
			case "write-persistent":
				e.T.FailWritesFrom = fc.TAt
			case "flush":
				e.T.FailFlushAt = fc.TAt
			case "read":
				e.T.FailReadAt = fc.TAt
				e.T.In = [][]byte{[]byte("r1"), []byte("r2"), []byte("r3")}
			}
			switch fc.Codec { // header + the first two of five body bytes, then the failing read
			case "lengthfield":
				e.T.In = [][]byte{{0, 5, 'a', 'b'}}
			case "fixed":
				e.T.In = [][]byte{{'a', 'b'}}
			case "varint":
				e.T.In = [][]byte{{5, 'a', 'b'}}
			}
			if fc.TOp != "" {
				if pv, ok := panicVal(fc.Val).(error); ok {
					e.T.WriteErr, e.T.FailReadErr = pv, pv
				}
			}
			if fc.Kind == "read" && fc.Codec == "" {
				e.T.In = [][]byte{[]byte("in1")}
			}
			e.PL = netty.NewPipeline()
			e.PL.AddLast(all...)
			e.Ch = fc.Cfg.Factory()(1, context.Background(), e.PL, e.T, netty.AsyncExecutor())
			guard := func(f func()) {
				defer func() {
					if r := recover(); r != nil {
						o.escaped = r
					}
				}()
				f()
			}
			guard(func() { e.PL.ServeChannel(e.Ch) })
			o.served = true
			if fc.State == "closed" {
				e.Ch.Close(errPre)
			}
			var closer *vsched.Thread
			if fc.State == "closing" {
				closer = vsched.Go("closer", func() { e.Ch.Close(errCloser); o.closerRan = true })
			}
			msg := []byte("out")
			ev := &struct{ n int }{1}
			switch fc.Entry {
			case "Channel.Write":
				n := 1
				if fc.TOp != "" {
					n = 3
				}
				if fc.TOp == "write-persistent" {
					n = 6
				}
				for i := 0; i < n; i++ {
					guard(func() { e.Ch.Write(msg) })
				}
			case "Channel.Trigger":
				guard(func() { e.Ch.Trigger(ev) })
			case "ctx.Write":
				guard(func() { e.PL.ContextAt(e.PL.Size() - 1).Write(msg) })
			case "ctx.Trigger":
				guard(func() { e.PL.ContextAt(1).Trigger(ev) })
			case "idle-timer":
				vsched.Sleep(int64(1500 * time.Millisecond)) // the timer fires at 1s on its own goroutine
			case "readloop":
				// active / read are delivered by the read loop itself
			}
			if closer != nil {
				vsched.Join(closer)
			}
			if fc.State != "open" {
				return
			}
			// follow-up: if the exception was consumed the channel must still work
			vsched.Yield("before follow-up")
			if e.Ch.IsActive() {
				if _, err := e.Ch.Write1([]byte("after")); err != nil {
					o.follow = "write failed: " + err.Error()
				} else {
					o.follow = "usable"
				}
			} else {
				o.follow = "closed"
			}
		},
		Outcome: func(x *vsched.Exec, v any) string {
			o := v.(*obs)
			var b strings.Builder
			for _, vis := range o.rec.Visits {
				b.WriteString(vis.String() + " ")
			}
			if o.env != nil {
				b.WriteString("| " + o.env.T.LogString())
			}
			return b.String() + " | " + o.follow
		},
		Check: func(x *vsched.Exec, v any) []explore.Finding { return check(x, v.(*obs)) },
	}
}

func isIn(ex error, thrown any) bool {
	te, ok := thrown.(error)
	return ok && errors.Is(ex, te)
}

func sameValue(thrown any, ex error) bool {
	if e, ok := thrown.(error); ok {
		return ex == e
	}
	return ex != nil && ex.Error() == fmt.Sprint(thrown)
}

func check(x *vsched.Exec, o *obs) []explore.Finding {
	fc := o.fc
	var fs []explore.Finding
	add := func(k, m string) { fs = append(fs, explore.Finding{Key: k, Msg: m}) }
	var trail []string
	for _, vis := range o.rec.Visits {
		s := vis.String()
		if vis.Kind == probes.KException || vis.Kind == probes.KInactive {
			s += fmt.Sprintf("(%v)", vis.Payload)
		}
		trail = append(trail, s)
	}
	ctxs := fmt.Sprintf(" visits: %v; transport: %s; follow-up: %s", trail, o.env.T.LogString(), o.follow)
	if o.escaped != nil {
		add("panic-escaped/"+fc.Entry, fmt.Sprintf("a panic escaped into the caller of %s: %v;%s", fc.Entry, o.escaped, ctxs))
	}
	for _, p := range x.Panics {
		add("goroutine-died/"+fc.Entry, "a framework goroutine died with a panic: "+p+";"+ctxs)
	}
	if ab := x.Abnormal(); ab != "" {
		add("stuck/"+strings.SplitN(ab, "[", 2)[0], "scheduler verdict "+ab+";"+ctxs)
		return fs
	}
	if fc.State != "open" {
		// closing / closed: containment only, plus a single inactive
		n := 0
		for _, vis := range o.rec.Visits {
			if vis.Kind == probes.KInactive && vis.H.ID == 0 {
				n++
			}
		}
		if n > 1 {
			add("inactive-twice", "inactive delivered more than once;"+ctxs)
		}
		return fs
	}
	// ---- open channel ----
	var exVisits []probes.Visit
	var inactive []probes.Visit
	for _, vis := range o.rec.Visits {
		if vis.Kind == probes.KException {
			exVisits = append(exVisits, vis)
		}
		if vis.Kind == probes.KInactive && vis.H.ID == 0 {
			inactive = append(inactive, vis)
		}
	}
	var thrown any = o.thrown
	faultHappened := o.delivered
	if fc.TOp != "" {
		// transport fault: the value is the injected error
		thrown = o.env.T.WriteErr
		if fc.TOp == "read" {
			thrown = o.env.T.FailReadErr
		}
		if thrown == nil {
			thrown = mock.ErrInjected
		}
		for _, e := range o.env.T.Log {
			if e.Failed && !e.Closed && strings.ContainsRune("WVFR", rune(e.Kind)) {
				faultHappened = true
			}
		}
	}
	if !faultHappened && fc.Codec != "" {
		add("harness/fault-not-injected", "the scripted read failure did not happen inside the frame body;"+ctxs)
	}
	if !faultHappened {
		if len(exVisits) > 0 {
			add("spurious-exception", "exception delivered without a fault;"+ctxs)
		}
		return fs
	}
	asyncSenderFault := fc.TOp != "" && fc.TOp != "read" && fc.Cfg.Q > 0
	// expected exception route
	var want []int
	consumed := false
	if !asyncSenderFault {
		switch {
		case fc.Shape == "none":
		case fc.Shape == "forward-all":
			want = []int{0, 1, 2}
		default:
			var sw int
			fmt.Sscanf(fc.Shape, "swallow@%d", &sw)
			for i := 0; i <= sw; i++ {
				want = append(want, i)
			}
			consumed = true
		}
		var got []int
		for _, vis := range exVisits {
			got = append(got, vis.H.ID)
		}
		// only the first fault is judged (later reads on a closing channel may raise further exceptions)
		if len(got) > len(want) && !consumed {
			got = got[:len(want)]
		}
		if consumed && len(got) > len(want) {
			add("exception-delivered-twice/"+fc.Entry, fmt.Sprintf("exception handlers invoked %v for one fault, expected %v;%s", got, want, ctxs))
		} else if fmt.Sprint(got) != fmt.Sprint(want) {
			add("exception-route/"+fc.Entry, fmt.Sprintf("exception handlers invoked in order %v, the pipeline defines %v;%s", got, want, ctxs))
		}
		for i, vis := range exVisits {
			if i >= len(want) {
				break
			}
			ex, _ := vis.Payload.(error)
			if te, ok := thrown.(error); ok && fc.Codec != "" && errors.Is(ex, te) {
				continue // behind a codec the transport's error may arrive wrapped, but it must be in the chain
			}
			if !sameValue(thrown, ex) {
				add("exception-value/"+fc.Val, fmt.Sprintf("handler h%d received exception %v (%T), the fault was %v (%T);%s", vis.H.ID, ex, ex, thrown, thrown, ctxs))
				break
			}
		}
	}
	fatalNet := false
	if e, ok := thrown.(error); ok {
		var ne net.Error
		if errors.As(e, &ne) && !ne.Timeout() {
			fatalNet = true
		}
	}
	switch {
	case asyncSenderFault || !consumed:
		// nobody consumed it (or the background sender failed): the channel is closed with that error
		if len(inactive) != 1 {
			add("not-closed-after-unconsumed-exception/"+fc.Entry, fmt.Sprintf("an exception nobody consumed (or a failed background write) must close the channel: inactive delivered %d times;%s", len(inactive), ctxs))
		} else if ex, _ := inactive[0].Payload.(error); !sameValue(thrown, ex) && !(fc.Codec != "" && isIn(ex, thrown)) {
			add("inactive-value/"+fc.Val, fmt.Sprintf("channel closed with %v, the fault was %v;%s", inactive[0].Payload, thrown, ctxs))
		}
		if o.env.T.Closes != 1 {
			add("transport-close-count", fmt.Sprintf("transport closed %d times;%s", o.env.T.Closes, ctxs))
		}
	case consumed && !fatalNet:
		if len(inactive) != 0 || o.follow != "usable" {
			add("unusable-after-consumed-exception/"+fc.Entry, fmt.Sprintf("the exception was consumed by a handler but the channel did not stay usable (inactive x%d, follow-up write: %s);%s", len(inactive), o.follow, ctxs))
		}
	default:
		// consumed non-timeout network error: the framework may close the channel; if it does, properly
		if len(inactive) > 1 {
			add("inactive-twice", "inactive delivered more than once;"+ctxs)
		}
	}
	return fs
}

func cases(thorough bool) []fcase {
	var out []fcase
	shapes := []string{"none", "forward-all", "swallow@0", "swallow@1", "swallow@2"}
	vals := []string{"error", "string", "runtime", "net-timeout", "net-fatal"}
	type ke struct{ kind, entry string }
	kes := []ke{{"active", "readloop"}, {"read", "readloop"}, {"write", "Channel.Write"}, {"write", "ctx.Write"}, {"event", "Channel.Trigger"}, {"event", "ctx.Trigger"}, {"event", "idle-timer"}}
	cfgs := []hlib.ChanCfg{{0, false}, {2, true}}
	for _, cfg := range cfgs {
		for _, sh := range shapes {
			for f := 0; f < 3; f++ {
				for _, k := range kes {
					for _, v := range vals {
						states := []string{"open"}
						if k.entry != "readloop" && k.entry != "idle-timer" {
							if v == "error" || thorough {
								states = append(states, "closing", "closed")
							}
						}
						if !thorough && cfg.Q > 0 && f == 1 && v != "error" {
							continue
						}
						for _, st := range states {
							out = append(out, fcase{Cfg: cfg, Shape: sh, Faulty: f, Kind: k.kind, Entry: k.entry, Val: v, State: st})
						}
					}
				}
			}
		}
	}
	// transport failures at the k-th call
	for _, cfg := range cfgs {
		for _, sh := range shapes {
			for _, v := range []string{"error", "net-timeout", "net-fatal"} {
				for k := 1; k <= 3; k++ {
					out = append(out,
						fcase{Cfg: cfg, Shape: sh, Faulty: -1, Kind: "write", Entry: "Channel.Write", Val: v, State: "open", TOp: "write", TAt: k},
						fcase{Cfg: cfg, Shape: sh, Faulty: -1, Kind: "write", Entry: "Channel.Write", Val: v, State: "open", TOp: "flush", TAt: k},
						fcase{Cfg: cfg, Shape: sh, Faulty: -1, Kind: "read", Entry: "readloop", Val: v, State: "open", TOp: "read", TAt: k},
					)
				}
			}
		}
	}
	// a read failing inside a frame body behind each of the shipped length-based decoders
	for _, sh := range shapes {
		for _, v := range []string{"error", "net-timeout", "net-fatal"} {
			out = append(out,
				fcase{Cfg: hlib.ChanCfg{}, Shape: sh, Faulty: -1, Kind: "read", Entry: "readloop", Val: v, State: "open", TOp: "read", TAt: 3, Codec: "lengthfield"},
				fcase{Cfg: hlib.ChanCfg{}, Shape: sh, Faulty: -1, Kind: "read", Entry: "readloop", Val: v, State: "open", TOp: "read", TAt: 2, Codec: "fixed"},
				fcase{Cfg: hlib.ChanCfg{}, Shape: sh, Faulty: -1, Kind: "read", Entry: "readloop", Val: v, State: "open", TOp: "read", TAt: 3, Codec: "varint"},
			)
		}
	}
	// a connection that stays broken: every write from call k on fails, with more packets queued than one batch
	for _, cfg := range []hlib.ChanCfg{{0, false}, {2, true}, {4, true}} {
		for _, v := range []string{"error", "net-fatal"} {
			for k := 1; k <= 2; k++ {
				out = append(out, fcase{Cfg: cfg, Shape: "forward-all", Faulty: -1, Kind: "write", Entry: "Channel.Write", Val: v, State: "open", TOp: "write-persistent", TAt: k})
			}
		}
	}
	return out
}

// ---- two faults whose exception deliveries overlap (two goroutines, or a write issued by an exception handler) ----

var errOnWrite, errOnEvent = errors.New("write handler failure"), errors.New("event handler failure")

type twoObs struct {
	env     *hlib.Env
	seen    []error
	escaped []any
	follow  error
}

// excLog consumes exceptions; while it handles one it gives other goroutines a chance to run, and -
// in the nested variant - answers the first exception with a write of its own.
type excLog struct {
	o      *twoObs
	nested bool
	wrote  bool
}

func (e *excLog) HandleException(ctx netty.ExceptionContext, ex netty.Exception) {
	e.o.seen = append(e.o.seen, ex)
	vsched.Yield("inside the exception handler")
	if e.nested && !e.wrote {
		e.wrote = true
		ctx.Write([]byte("reaction")) // passes the failing write handler: a second exception while the first is being handled
	}
}

type failing struct{}

func (failing) HandleWrite(ctx netty.OutboundContext, m netty.Message) { panic(errOnWrite) }
func (failing) HandleEvent(ctx netty.EventContext, ev netty.Event)     { panic(errOnEvent) }

func twoFaults(cfg hlib.ChanCfg, nested bool) *explore.Scenario {
	name := fmt.Sprintf("%s/two faults with overlapping exception deliveries (Channel.Write || Channel.Trigger), exceptions consumed", cfg)
	if nested {
		name = fmt.Sprintf("%s/an exception handler whose own ctx.Write fails while it handles an exception", cfg)
	}
	return &explore.Scenario{
		Name:  name,
		Bound: 2,
		Cache: true,
		Cfg:   vsched.Config{MaxSteps: 8000},
		Init:  func() any { return &twoObs{} },
		Body: func(v any) {
			o := v.(*twoObs)
			// outbound events travel tail -> head: the failing handler sits in front of the logger for writes
			o.env = hlib.NewEnv(cfg, nil, &hlib.Reader{}, failing{}, &excLog{o: o, nested: nested})
			guard := func(f func()) {
				defer func() {
					if r := recover(); r != nil {
						o.escaped = append(o.escaped, r)
					}
				}()
				f()
			}
			var ths []*vsched.Thread
			ths = append(ths, vsched.Go("trigger", func() { guard(func() { o.env.Ch.Trigger(&struct{ n int }{1}) }) }))
			if !nested {
				ths = append(ths, vsched.Go("write", func() { guard(func() { o.env.Ch.Write([]byte("out")) }) }))
			}
			for _, t := range ths {
				vsched.Join(t)
			}
			_, o.follow = o.env.Ch.Write1(mock.Payload(1, 3))
		},
		Outcome: func(x *vsched.Exec, v any) string {
			o := v.(*twoObs)
			return fmt.Sprint(o.seen, o.escaped, o.follow, o.env.T.LogString())
		},
		Check: func(x *vsched.Exec, v any) []explore.Finding {
			o := v.(*twoObs)
			var fs []explore.Finding
			add := func(k, m string) { fs = append(fs, explore.Finding{Key: "overlapping-exceptions/" + k, Msg: m}) }
			ctxs := fmt.Sprintf(" exceptions delivered: %v; transport: %s", o.seen, o.env.T.LogString())
			if len(o.escaped) > 0 {
				add("panic-escaped", fmt.Sprintf("a panic escaped into the caller: %v;%s", o.escaped, ctxs))
			}
			nw, ne := 0, 0
			for _, e := range o.seen {
				if errors.Is(e, errOnWrite) {
					nw++
				}
				if errors.Is(e, errOnEvent) {
					ne++
				}
			}
			if nw != 1 || ne != 1 || len(o.seen) != 2 {
				add("delivery-count", fmt.Sprintf("each of the two faults must be delivered to the exception handler exactly once (write fault x%d, event fault x%d);%s", nw, ne, ctxs))
			}
			if o.follow != nil || !o.env.Ch.IsActive() {
				add("unusable", fmt.Sprintf("both exceptions were consumed but the channel is not usable afterwards (follow-up write: %v);%s", o.follow, ctxs))
			}
			return fs
		},
	}
}

// ---- a library handler that panics: the channel holder refusing a duplicate channel id ----

type dupObs struct {
	envs     [2]*hlib.Env
	cons     [2]*hlib.Consumer
	inact    [2]int
	follow   [2]error
	closed1  bool
	closeAll bool
}

type inactCounter struct {
	o *dupObs
	i int
}

func (c inactCounter) HandleInactive(ctx netty.InactiveContext, ex netty.Exception) {
	c.o.inact[c.i]++
	ctx.HandleInactive(ex)
}

func dupScenario(cfg hlib.ChanCfg, consume bool) *explore.Scenario {
	return &explore.Scenario{
		Name:  fmt.Sprintf("%s/holder refuses a duplicate channel id/exception consumed=%v", cfg, consume),
		Bound: 1,
		Cache: true,
		Cfg:   vsched.Config{MaxSteps: 8000},
		Init:  func() any { return &dupObs{} },
		Body: func(v any) {
			o := v.(*dupObs)
			holder := netty.NewChannelHolder(4)
			for i := 0; i < 2; i++ {
				e := &hlib.Env{T: mock.NewTransport(fmt.Sprintf("t%d", i+1))}
				o.envs[i] = e
				e.PL = netty.NewPipeline()
				e.PL.AddLast(holder, inactCounter{o, i})
				if consume {
					o.cons[i] = &hlib.Consumer{}
					e.PL.AddLast(o.cons[i])
				} else {
					e.PL.AddLast(&hlib.Reader{})
				}
				e.Ch = cfg.Factory()(7, context.Background(), e.PL, e.T, netty.AsyncExecutor()) // the same id twice
				e.PL.ServeChannel(e.Ch)
			}
			var ths []*vsched.Thread
			for i := 0; i < 2; i++ {
				i := i
				ths = append(ths, vsched.Go(fmt.Sprintf("user%d", i+1), func() {
					_, o.follow[i] = o.envs[i].Ch.Write1(mock.Payload(i+1, 3))
				}))
			}
			for _, t := range ths {
				vsched.Join(t)
			}
			o.envs[0].Ch.Close(errPre)
			o.closed1 = true
			holder.CloseAll(errCloser)
			o.closeAll = true
		},
		Outcome: func(x *vsched.Exec, v any) string {
			o := v.(*dupObs)
			return fmt.Sprint(o.envs[0].T.LogString(), " | ", o.envs[1].T.LogString(), " | ", o.inact, o.follow)
		},
		Check: func(x *vsched.Exec, v any) []explore.Finding {
			o := v.(*dupObs)
			var fs []explore.Finding
			add := func(k, m string) { fs = append(fs, explore.Finding{Key: "holder-duplicate-id/" + k, Msg: m}) }
			if o.envs[1] == nil || o.envs[1].Ch == nil {
				add("serve-never-returned", "serving the second channel did not finish")
				return fs
			}
			ctxs := fmt.Sprintf(" transports: %s | %s; inactive counts %v; follow-up writes %v", o.envs[0].T.LogString(), o.envs[1].T.LogString(), o.inact, o.follow)
			if !o.closed1 || !o.closeAll {
				add("close-blocked", "Close / CloseAll did not return after the holder had refused a channel;"+ctxs)
			}
			if consume {
				if n := len(o.cons[1].Seen); n != 1 {
					add("exception-count", fmt.Sprintf("the refused channel's exception handler saw %d exceptions;%s", n, ctxs))
				}
				if o.follow[1] != nil {
					add("not-usable", fmt.Sprintf("the exception was consumed but the channel is not usable afterwards: %v;%s", o.follow[1], ctxs))
				}
			} else if o.envs[1].T.Closes != 1 || o.inact[1] != 1 {
				add("not-closed", fmt.Sprintf("nobody consumed the exception but the refused channel was not closed exactly once (transport closes %d, inactive %d);%s", o.envs[1].T.Closes, o.inact[1], ctxs))
			}
			if o.follow[0] != nil {
				add("first-channel-broken", fmt.Sprintf("the first channel's write failed: %v;%s", o.follow[0], ctxs))
			}
			if o.envs[0].T.Closes != 1 || o.inact[0] != 1 {
				add("first-channel-not-closed", "Close of the first channel did not close it exactly once;"+ctxs)
			}
			return fs
		},
	}
}

func main() {
	explore.Main(explore.Spec{
		Property: "C07",
		Rule:     "every injection point: exception-handling shape {none, all forward, swallow at position 0/1/2} x panicking handler position {0,1,2} x event/entry {active and read via the read loop; write via Channel.Write and ctx.Write; user event via Channel.Trigger, ctx.Trigger and the read-idle timer callback (virtual time)} x panic value {error, string, runtime error from a nil-map write, timeout net.Error, non-timeout net.Error} x channel state {open, closing on another goroutine, closed} on sync and aq(2,B); plus transport Write/Writev/Flush/Read failing at call 1..3 with plain / timeout / non-timeout errors, and connections whose writes keep failing from call 1/2 on with more packets queued than one sender batch (aq(2,B), aq(4,B), 6 writes); a transport read failing inside a frame body behind the length-field, fixed-length and varint decoders (the transport's error must be in the exception's chain); two faults whose exception deliveries overlap (Channel.Write || Channel.Trigger with a consuming handler that yields; an exception handler whose own ctx.Write fails): each delivered exactly once; a library handler that panics: two channels with the same id on one channel holder, exception consumed or not, then writes, Close and CloseAll. Each case is a closed driver explored over all interleavings up to 1 (closing: 2) preemptions. Oracle: no panic escapes into the caller, no framework goroutine dies, no deadlock; on an open channel the exception visits the exception handlers head->tail exactly once up to the first consumer with the identical value (equal text for non-errors); unconsumed (or failed background write) => exactly one inactive carrying that value and one transport Close; consumed and not a non-timeout net.Error => the channel stays usable (follow-up write succeeds). distinct = distinct (handler visit log, transport log, follow-up) observations",
		Assume:   []string{"exception handlers themselves do not panic", "for a consumed non-timeout network error either outcome (closed or open) is accepted"},
		Build: func(tier string) []*explore.Scenario {
			th := tier == "thorough"
			return []*explore.Scenario{twoFaults(hlib.ChanCfg{}, false), twoFaults(hlib.ChanCfg{Q: 2, Until: true}, false), twoFaults(hlib.ChanCfg{}, true), dupScenario(hlib.ChanCfg{}, false), dupScenario(hlib.ChanCfg{}, true), dupScenario(hlib.ChanCfg{Q: 2, Until: true}, false), dupScenario(hlib.ChanCfg{Q: 2, Until: true}, true), {
				Name:   "fault-injection matrix",
				Shards: 16,
				Bound:  map[bool]int{false: 1, true: 2}[th],
				Enum: func(c *explore.EnumCtx) {
					for _, fc := range cases(th) {
						if !c.Mine() || c.Expired() {
							continue
						}
						c.Explore(buildScenario(fc), fc)
					}
				},
				Replay: func(c *explore.EnumCtx, desc json.RawMessage) {
					var fc fcase
					json.Unmarshal(desc, &fc)
					c.ReplaySub(buildScenario(fc))
				},
			}}
		},
	})
}
