//go:build verif

// C08: frame decoders never deliver a truncated, oversized or phantom frame.
package main

import (
	"bytes"
	"encoding/binary"
	"encoding/json"
	"fmt"
	"runtime"
	"sort"
	"strings"

	"github.com/go-netty/go-netty/zz_verif/clib"
	"github.com/go-netty/go-netty/zz_verif/explore"
	"github.com/go-netty/go-netty/zz_verif/vsched"
)

type c8case struct {
	Cfg     clib.FrameCfg `json:"cfg"`
	Stream  []byte        `json:"stream"`           // raw bytes fed before end-of-stream
	Ends    []int         `json:"ends,omitempty"`   // offsets at which complete valid frames end (in order)
	Wants   [][]byte      `json:"wants,omitempty"`  // the messages of those frames
	OneByte bool          `json:"one_byte"`         // 1-byte reads instead of one read
	WithEOF bool          `json:"data_with_eof"`    // last data delivered together with EOF
	Bad     string        `json:"bad,omitempty"`    // description of an adversarial stream
	Budget  int           `json:"budget,omitempty"` // adversarial: max bytes the decoder may pull in total
	Helper  bool          `json:"helper"`
}

func run(cc c8case) (string, string) {
	var cuts []int
	if cc.OneByte {
		cuts = clib.Ones(len(cc.Stream))
	}
	res := clib.Decode(cc.Cfg.Decoder(), clib.Fragment(cc.Stream, cuts), cc.WithEOF, cc.Helper, len(cc.Ends)+6)
	kc := cc.Cfg.KeyClass()
	desc := func() string {
		what := fmt.Sprintf("%d-byte stream %x", len(cc.Stream), clipB(cc.Stream))
		if cc.Bad != "" {
			what = cc.Bad + " (" + what + ")"
		}
		return fmt.Sprintf("%s fed %s then end-of-stream (1-byte reads=%v, data-with-EOF=%v, helper=%v): delivered %s; exceptions %v; closed=%v", cc.Cfg, what, cc.OneByte, cc.WithEOF, cc.Helper, clib.Describe(res.Sink.Msgs), clipErrs(res.Sink.Exceptions), res.Closed)
	}
	if res.Panic != nil {
		return "panic-escaped/" + kc, desc() + fmt.Sprintf(": a panic escaped the read loop: %v", res.Panic)
	}
	for _, e := range res.Sink.Exceptions {
		if _, ok := e.(runtime.Error); ok {
			return "runtime-fault/" + kc, desc() + fmt.Sprintf(": decoder failed with a runtime fault: %v", e)
		}
	}
	if res.Sink.Runaway {
		return "endless-messages/" + kc, desc() + ": the decoder keeps delivering messages after the stream ended instead of closing the channel"
	}
	if !res.Closed {
		return "not-closed-at-eof/" + kc, desc() + ": the peer closed but the channel was not closed"
	}
	// complete frames contained in the fed prefix
	nComplete := 0
	for _, e := range cc.Ends {
		if e <= len(cc.Stream) {
			nComplete++
		}
	}
	good := res.Sink.Good()
	if len(good) > nComplete {
		extra := good[nComplete]
		k := "phantom-or-truncated-frame/"
		return k + kc, desc() + fmt.Sprintf(": only %d complete frames were received but %d messages were delivered (extra message: %d bytes %x)", nComplete, len(good), len(extra.Bytes), clipB(extra.Bytes))
	}
	for i := 0; i < len(good); i++ {
		if !bytes.Equal(good[i].Bytes, cc.Wants[i]) {
			return "frame-content/" + kc, desc() + fmt.Sprintf(": message %d differs from frame %d", i, i)
		}
	}
	// (a complete frame that is not delivered, e.g. because its last byte arrived together with
	// EOF, is not judged here: C08 allows an exception instead; round trips are C04's business)
	if cc.Budget > 0 && res.T.Consumed > cc.Budget {
		return "unbounded-buffering/" + kc, desc() + fmt.Sprintf(": the decoder pulled %d bytes, more than maximum + header = %d", res.T.Consumed, cc.Budget)
	}
	return "", ""
}

// deterministic enumeration order (Go randomises map iteration)
func sortedKeys(m map[string]uint64) []string {
	ks := make([]string, 0, len(m))
	for k := range m {
		ks = append(ks, k)
	}
	sort.Strings(ks)
	return ks
}

func sortedKeysB(m map[string][]byte) []string {
	ks := make([]string, 0, len(m))
	for k := range m {
		ks = append(ks, k)
	}
	sort.Strings(ks)
	return ks
}

func clipB(b []byte) []byte {
	if len(b) > 32 {
		return b[:32]
	}
	return b
}
func clipErrs(e []error) []error {
	if len(e) > 2 {
		return e[:2]
	}
	return e
}

func each(c *explore.EnumCtx, cc c8case, idx *int) {
	for _, one := range []bool{false, true} {
		for _, weof := range []bool{false, true} {
			if c.Expired() {
				return
			}
			*idx++
			x := cc
			x.OneByte, x.WithEOF, x.Helper = one, weof, *idx%2 == 0
			k, m := run(x)
			c.Case(fmt.Sprint(x.Cfg, x.Stream, one, weof), true, func() any { return x })
			c.Count(0, 1)
			if k != "" {
				c.Fail(k, m, x)
			}
		}
	}
}

// truncations: valid streams of 2 frames cut at every byte position.
func truncations(c *explore.EnumCtx, cfg clib.FrameCfg, lens []int, idx *int) {
	var bodies [][]byte
	for k, n := range lens {
		bodies = append(bodies, clib.Body(k, n))
	}
	truncBodies(c, cfg, bodies, idx)
}

func truncBodies(c *explore.EnumCtx, cfg clib.FrameCfg, bodies [][]byte, idx *int) {
	var stream []byte
	var ends []int
	var wants [][]byte
	for _, b := range bodies {
		w, ok := cfg.RefFrame(b)
		if !ok {
			return
		}
		stream = append(stream, w...)
		ends = append(ends, len(stream))
		wants = append(wants, cfg.Expect(b))
	}
	for cut := 0; cut <= len(stream); cut++ {
		each(c, c8case{Cfg: cfg, Stream: stream[:cut], Ends: ends, Wants: wants}, idx)
	}
}

func lfConfigs(thorough bool) []clib.FrameCfg {
	var cfgs []clib.FrameCfg
	offs, maxes := []int{0, 1}, []int{32}
	if thorough {
		offs, maxes = []int{0, 1, 3}, []int{32, 20, 64}
	}
	for _, max := range maxes {
		for _, w := range []int{1, 2, 4, 8} {
			for _, little := range []bool{false, true} {
				for _, off := range offs {
					for _, adj := range []int{-2, 0, 2, 4, -w} {
						for _, strip := range []int{0, off + w, off + w + 2} { // (the last one strips into the body)
							cfgs = append(cfgs, clib.FrameCfg{Kind: "lengthfield", W: w, Little: little, Off: off, Adj: adj, Strip: strip, Max: max})
						}
					}
				}
			}
		}
	}
	return cfgs
}

func field(cfg clib.FrameCfg, v uint64) []byte {
	b := make([]byte, cfg.W)
	switch cfg.W {
	case 1:
		b[0] = byte(v)
	case 2:
		cfg.Order().PutUint16(b, uint16(v))
	case 4:
		cfg.Order().PutUint32(b, uint32(v))
	case 8:
		cfg.Order().PutUint64(b, v)
	}
	return b
}

func scenarios(thorough bool) []*explore.Scenario {
	replay := func(c *explore.EnumCtx, desc json.RawMessage) {
		var cc c8case
		json.Unmarshal(desc, &cc)
		vsched.Run(vsched.Config{MaxSteps: 1 << 60}, func() {
			if k, m := run(cc); k != "" {
				c.Fail(k, m, cc)
			}
		})
	}
	trunc := &explore.Scenario{
		Name:   "truncation: valid streams cut at every byte position",
		Shards: 16,
		Enum: func(c *explore.EnumCtx) {
			vsched.Run(vsched.Config{MaxSteps: 1 << 60}, func() {
				idx := 0
				var cfgs []clib.FrameCfg
				cfgs = append(cfgs, lfConfigs(thorough)...)
				for _, max := range []int{1, 8, 127, 128, 300} {
					cfgs = append(cfgs, clib.FrameCfg{Kind: "varint", Max: max})
				}
				for _, d := range []string{"\n", "\r\n", "aab"} {
					for _, s := range []bool{true, false} {
						cfgs = append(cfgs, clib.FrameCfg{Kind: "delimiter", Delim: d, StripD: s, Max: 12})
					}
				}
				for _, n := range []int{1, 4, 9} {
					cfgs = append(cfgs, clib.FrameCfg{Kind: "fixed", N: n})
				}
				for _, cfg := range cfgs {
					if !c.Mine() {
						continue
					}
					lensList := [][]int{{0, 3}, {1, 0}, {5, 5}, {9, 1}, {3, 4}}
					if thorough {
						lensList = append(lensList, []int{2, 7, 1}, []int{0, 0, 6}, []int{4}, []int{6, 2, 0, 3})
					}
					if cfg.Kind == "fixed" {
						lensList = [][]int{{cfg.N, cfg.N}, {cfg.N}}
					}
					if cfg.Kind == "varint" && cfg.Max >= 128 {
						lensList = append(lensList, []int{127, 128}, []int{200, 2})
					}
					// frames whose total length is exactly max-1 / max (still valid)
					if cfg.Kind == "lengthfield" {
						room := cfg.Max - cfg.Off - cfg.W
						lensList = append(lensList, []int{room, room - 1})
					}
					if cfg.Kind == "delimiter" && len(cfg.Delim) > 1 {
						// bodies made of the delimiter's own bytes (partial delimiters at the start, middle and end of a frame)
						d := cfg.Delim
						last, first := d[len(d)-1:], d[:1]
						for _, b := range []string{last, last + "w", first + first, last + last + "w" + first, "w" + last + first, d[1:] + d[:len(d)-1]} {
							if !strings.Contains(b, d) {
								truncBodies(c, cfg, [][]byte{[]byte(b), []byte("x" + last)}, &idx)
							}
						}
					}
					for _, lens := range lensList {
						ok := true
						for _, l := range lens {
							if l < 0 {
								ok = false
							}
						}
						if ok {
							truncations(c, cfg, lens, &idx)
						}
					}
				}
			})
		},
		Replay: replay,
	}
	adv := &explore.Scenario{
		Name:   "adversarial headers / missing delimiters / oversized frames",
		Shards: 8,
		Enum: func(c *explore.EnumCtx) {
			vsched.Run(vsched.Config{MaxSteps: 1 << 60}, func() {
				idx := 0
				filler := bytes.Repeat([]byte{0x41}, 100)
				for _, cfg := range lfConfigs(thorough) {
					if !c.Mine() {
						continue
					}
					hdr := cfg.Off + cfg.W
					prefix := make([]byte, cfg.Off)
					mk := func(v uint64) []byte {
						return append(append(append([]byte{}, prefix...), field(cfg, v)...), filler...)
					}
					budget := cfg.Max + hdr
					room := cfg.Max - hdr // largest body the maximum admits
					vals := map[string]uint64{
						"all-ones length field":  ^uint64(0),
						"sign bit set":           1 << (8*uint(cfg.W) - 1),
						"largest positive value": 1<<(8*uint(cfg.W)-1) - 1,
						"zero":                   0,
						"one":                    1,
					}
					// field values that make the total frame exactly max+1, max+2 ... (must be rejected),
					// and negative adjusted lengths (field < -adj)
					for d := 1; d <= 5; d++ {
						if f := room - cfg.Adj + d; f >= 0 {
							vals[fmt.Sprintf("frame of total length max+%d", d)] = uint64(f)
						}
					}
					for _, name := range sortedKeys(vals) {
						v := vals[name]
						body := int64(v) + int64(cfg.Adj)
						cc := c8case{Cfg: cfg, Stream: mk(v), Bad: name, Budget: budget}
						if cfg.W == 8 && v > 1<<63-1 {
							body = -1 // negative: must be rejected
						}
						if cfg.W < 8 {
							body = int64(v&(1<<(8*uint(cfg.W))-1)) + int64(cfg.Adj)
						}
						if body >= 0 && body <= int64(room) && int64(cfg.Strip) <= body+int64(hdr) {
							// this header is actually valid: a frame of `body` filler bytes
							b := filler[:body]
							full := append(append(append([]byte{}, prefix...), field(cfg, v)...), b...)
							cc.Ends = []int{len(full)}
							cc.Wants = [][]byte{full[cfg.Strip:]}
							cc.Stream = full
							cc.Bad = name + " (valid)"
						}
						each(c, cc, &idx)
					}
				}
				// varint: over-long and overflowing headers
				for _, max := range []int{1, 127, 128, 300} {
					cfg := clib.FrameCfg{Kind: "varint", Max: max}
					if !c.Mine() {
						continue
					}
					enc := func(v uint64) []byte {
						var h [binary.MaxVarintLen64]byte
						return append([]byte{}, h[:binary.PutUvarint(h[:], v)]...)
					}
					bad := map[string][]byte{
						"length max+1":                  enc(uint64(max) + 1),
						"length 2^31":                   enc(1 << 31),
						"length 2^63-1":                 enc(1<<63 - 1),
						"length 2^63":                   enc(1 << 63),
						"length 2^64-1":                 enc(^uint64(0)),
						"11-byte varint":                append(bytes.Repeat([]byte{0x80}, 10), 0x01),
						"10-byte varint overflowing":    append(bytes.Repeat([]byte{0xff}, 9), 0x7f),
						"unterminated varint then EOF":  bytes.Repeat([]byte{0x80}, 3),
						"non-minimal varint for 1 byte": {0x81, 0x00},
					}
					for _, name := range sortedKeysB(bad) {
						h := bad[name]
						cc := c8case{Cfg: cfg, Stream: append(append([]byte{}, h...), filler...), Bad: name, Budget: max + 11}
						if name == "unterminated varint then EOF" {
							cc.Stream = h
						}
						if name == "non-minimal varint for 1 byte" {
							// decodes to length 1: a valid (if unusual) header
							cc.Stream = append(append([]byte{}, h...), 0x41)
							cc.Ends, cc.Wants = []int{3}, [][]byte{{0x41}}
						}
						each(c, cc, &idx)
					}
				}
				// delimiter: missing delimiter up to max and beyond; delimiter split by end-of-stream
				for _, d := range []string{"\n", "\r\n", "aab"} {
					for _, s := range []bool{true, false} {
						cfg := clib.FrameCfg{Kind: "delimiter", Delim: d, StripD: s, Max: 12}
						if !c.Mine() {
							continue
						}
						for n := 0; n <= cfg.Max+3; n++ {
							each(c, c8case{Cfg: cfg, Stream: bytes.Repeat([]byte{'x'}, n), Bad: fmt.Sprintf("%d bytes without delimiter", n), Budget: cfg.Max}, &idx)
							// the delimiter arrives too late (frame longer than max)
							if n+len(d) > cfg.Max {
								each(c, c8case{Cfg: cfg, Stream: append(bytes.Repeat([]byte{'x'}, n), d...), Bad: fmt.Sprintf("%d bytes then delimiter (frame exceeds max)", n), Budget: cfg.Max}, &idx)
							}
						}
					}
				}
			})
		},
		Replay: replay,
	}
	return []*explore.Scenario{trunc, adv}
}

func main() {
	explore.Main(explore.Spec{
		Property: "C08",
		Rule:     "for 160 length-field configurations (width x order x offset x adjustment incl. positive x strip, max 32), varint (5 maxima), delimiter (3 delimiters x strip) and fixed-length decoders: (a) valid 2-frame streams cut at EVERY byte position, then end-of-stream, under whole-buffer and 1-byte reads, plain EOF and data-together-with-EOF, messages read alternately with io.ReadAll and the shipped helper; (b) adversarial headers (all-ones, sign bit, totals of max+1..max+5, negative adjusted lengths, 10/11-byte and overflowing varints, values >= 2^63, unterminated varints, missing or late delimiters up to max+3). Driven through the real channel read loop. Oracle: exactly the completely received frames are delivered, nothing else; the channel closes at end-of-stream (no endless messages: delivery cap); exceptions are never runtime faults; nothing escapes the read loop; bytes pulled for a rejected frame <= max + header. distinct = distinct cases",
		Assume:   []string{"a message whose lazy reader fails with an error when read by the application counts as an exception, not as a delivered frame", "zero-length successful reads are not in the fragmentation alphabet"},
		Build:    func(tier string) []*explore.Scenario { return scenarios(tier == "thorough") },
	})
}
