//go:build verif

// C13: Shutdown stops every listener and closes every channel, whenever it is called.
package main

import (
	"context"
	"errors"
	"fmt"
	"io"
	"strings"

	netty "github.com/go-netty/go-netty"
	"github.com/go-netty/go-netty/zz_verif/explore"
	"github.com/go-netty/go-netty/zz_verif/hlib"
	"github.com/go-netty/go-netty/zz_verif/mock"
	"github.com/go-netty/go-netty/zz_verif/vcontext"
	"github.com/go-netty/go-netty/zz_verif/vsched"
)

// app is the per-channel application handler: reads (parks in the transport), counts events.
type app struct {
	o    *obs
	id   int64
	tr   *mock.Transport
	act  int
	inac int
}

func (a *app) HandleActive(ctx netty.ActiveContext) {
	a.act++
	ctx.HandleActive()
}
func (a *app) HandleRead(ctx netty.InboundContext, msg netty.Message) {
	var b [16]byte
	if _, err := msg.(io.Reader).Read(b[:]); err != nil {
		panic(err)
	}
}
func (a *app) HandleException(ctx netty.ExceptionContext, ex netty.Exception) {
	ctx.Close(ex)
}
func (a *app) HandleInactive(ctx netty.InactiveContext, ex netty.Exception) {
	a.inac++
	ctx.HandleInactive(ex)
}

// greet is a handshake handler the application puts in FRONT of everything else: the channel only
// becomes active (for the handlers behind it) once the peer has sent a byte or the connection ended.
type greet struct {
	tr            *mock.Transport
	id            int64
	entered, done bool
}

// recHolder wraps the channel holder given to the bootstrap and notes (in scheduler steps) when a channel
// reaches the holder's HandleActive - the moment it gets registered - and when CloseAll starts its sweep.
type recHolder struct {
	netty.ChannelHolder
	o *obs
}

// regCtx notes the step at which the holder forwards the active event, i.e. has finished registering.
type regCtx struct {
	netty.ActiveContext
	o *obs
}

func (c regCtx) HandleActive() {
	c.o.regStep[c.Channel().ID()] = vsched.X.Steps()
	c.ActiveContext.HandleActive()
}

func (r *recHolder) HandleActive(ctx netty.ActiveContext) {
	r.ChannelHolder.HandleActive(regCtx{ctx, r.o})
}

func (r *recHolder) CloseAll(err error) {
	if r.o.sweepStart < 0 {
		r.o.sweepStart = vsched.X.Steps()
	}
	r.ChannelHolder.CloseAll(err)
}

func (g *greet) HandleActive(ctx netty.ActiveContext) {
	g.entered = true
	var b [1]byte
	g.tr.Read(b[:]) // blocks until the peer speaks or the transport is closed
	g.done = true
	ctx.HandleActive()
}

type obs struct {
	f                    *mock.Factory
	bs                   netty.Bootstrap
	holder               netty.ChannelHolder
	apps                 []*app
	greets               []*greet
	regStep              map[int64]int   // channel id -> step at which the holder had registered it (forwarded the active event)
	sweepStart           int             // step at which CloseAll began (-1: never)
	cbErrs               map[int][]error // listener index -> callback errors
	listenerClosedByUser map[int]bool
	connectErr           []error
	shutdownDone         bool
}

type plan struct {
	Listeners int  // Listen(url).Async(cb) calls
	Inbound   int  // scripted inbound connections (to listener 0)
	Connects  int  // client Connect calls
	LClose    bool // a goroutine calls Listener.Close on listener 0
	Relisten  bool // after LClose, the same url is listened on again
	EarlyShut bool // Shutdown is issued by the main goroutine right after the Async calls (before anything else)
	// Handshake: the initializer AddFirst()s a handler that holds the active event back until the peer
	// speaks (a connection that stays "between accept and activation" until Shutdown ends it)
	Handshake bool
	// ParentCancel: the bootstrap is built WithContext(parent) and a goroutine cancels parent
	ParentCancel bool
	// StalledWriter: synchronous-write channels; a user goroutine is blocked inside the transport's Write
	// (the peer does not read) when Shutdown runs
	StalledWriter bool
}

func (p plan) String() string {
	s := fmt.Sprintf("listeners=%d inbound=%d connects=%d", p.Listeners, p.Inbound, p.Connects)
	if p.LClose {
		s += " +Listener.Close"
	}
	if p.Relisten {
		s += " +relisten"
	}
	if p.EarlyShut {
		s += " shutdown-right-after-Async"
	}
	if p.Handshake {
		s += " +handshake-handler-first"
	}
	if p.ParentCancel {
		s += " +parent-context-cancelled"
	}
	if p.StalledWriter {
		s += " +sync-channel-with-writer-stuck-in-the-transport"
	}
	return s
}

func scenario(p plan, bound int) *explore.Scenario {
	return &explore.Scenario{
		Name:   p.String(),
		Bound:  bound,
		Cache:  true,
		Shards: 4,
		Cfg:    vsched.Config{MaxSteps: 8000},
		// (handshake plans judge the scheduler's verdict themselves, see Check)
		AllowAbnormal: p.Handshake,
		Init: func() any {
			return &obs{cbErrs: map[int][]error{}, listenerClosedByUser: map[int]bool{}, regStep: map[int64]int{}, sweepStart: -1}
		},
		Body: func(v any) {
			o := v.(*obs)
			o.f = &mock.Factory{}
			o.holder = netty.NewChannelHolder(8)
			mk := func(ch netty.Channel) {
				a := &app{o: o, id: ch.ID(), tr: ch.Transport().(*mock.Transport)}
				o.apps = append(o.apps, a)
				ch.Pipeline().AddLast(a)
				if p.StalledWriter {
					a.tr.Stalled = true
				}
				if p.Handshake {
					g := &greet{tr: a.tr, id: ch.ID()}
					o.greets = append(o.greets, g)
					ch.Pipeline().AddFirst(g)
				}
			}
			parent, cancelParent := vcontext.WithCancel(context.Background())
			chf := netty.NewAsyncWriteChannel(64, true) // the bootstrap default
			if p.StalledWriter {
				chf = netty.NewChannel()
			}
			o.bs = netty.NewBootstrap(
				netty.WithChannel(chf),
				netty.WithContext(parent),
				netty.WithTransport(o.f),
				netty.WithChannelHolder(&recHolder{o.holder, o}),
				netty.WithChildInitializer(mk),
				netty.WithClientInitializer(mk),
			)
			var ls []netty.Listener
			for i := 0; i < p.Listeners; i++ {
				i := i
				l := o.bs.Listen(fmt.Sprintf("mock://host%d:80", i))
				ls = append(ls, l)
				l.Async(func(err error) { o.cbErrs[i] = append(o.cbErrs[i], err) })
			}
			var ths []*vsched.Thread
			shut := func() { o.bs.Shutdown(); o.shutdownDone = true }
			if p.EarlyShut {
				shut()
			} else {
				ths = append(ths, vsched.Go("shutdown", shut))
			}
			if p.ParentCancel {
				ths = append(ths, vsched.Go("parent", cancelParent))
			}
			if p.Inbound > 0 && p.Listeners > 0 {
				ths = append(ths, vsched.GoDaemon("peers", func() {
					a := o.f.WaitAcceptor(0)
					for k := 0; k < p.Inbound; k++ {
						a.Inject(fmt.Sprintf("inbound%d", k+1))
					}
				}))
			}
			for k := 0; k < p.Connects; k++ {
				ths = append(ths, vsched.Go(fmt.Sprintf("client%d", k+1), func() {
					ch, err := o.bs.Connect("mock://server:9")
					if err != nil {
						o.connectErr = append(o.connectErr, err)
					} else if p.StalledWriter {
						ch.Write1([]byte("stuck")) // returns only when the transport lets go
					}
				}))
			}
			if p.LClose && p.Listeners > 0 {
				ths = append(ths, vsched.Go("lclose", func() {
					o.listenerClosedByUser[0] = true
					ls[0].Close()
					if p.Relisten {
						func() {
							defer func() { recover() }() // duplicate-listener panics are the caller's business
							l := o.bs.Listen("mock://host0:80")
							idx := p.Listeners
							l.Async(func(err error) { o.cbErrs[idx] = append(o.cbErrs[idx], err) })
						}()
					}
				}))
			}
			for _, t := range ths {
				if !t.Daemon {
					vsched.Join(t)
				}
			}
		},
		Outcome: func(x *vsched.Exec, v any) string {
			o := v.(*obs)
			var b strings.Builder
			for _, a := range o.f.Acceptors {
				fmt.Fprintf(&b, "%s closed=%v acc=%d out=%d; ", a.Name, a.Closed, len(a.Accepted), a.Outstanding)
			}
			for _, a := range o.apps {
				fmt.Fprintf(&b, "ch%d act=%d inac=%d closes=%d; ", a.id, a.act, a.inac, a.tr.Closes)
			}
			fmt.Fprint(&b, o.cbErrs)
			return b.String()
		},
		Check: func(x *vsched.Exec, v any) []explore.Finding {
			o := v.(*obs)
			var fs []explore.Finding
			add := func(k, m string) { fs = append(fs, explore.Finding{Key: k, Msg: m}) }
			var b strings.Builder
			for _, a := range o.f.Acceptors {
				fmt.Fprintf(&b, "%s closed=%v accepted=%d outstandingAccept=%d; ", a.Name, a.Closed, len(a.Accepted), a.Outstanding)
			}
			for _, a := range o.apps {
				fmt.Fprintf(&b, "channel %d (%s) active=%d inactive=%d transportCloses=%d; ", a.id, a.tr.Name, a.act, a.inac, a.tr.Closes)
			}
			ctxs := " state at quiescence: " + b.String() + fmt.Sprintf("callbacks=%v", o.cbErrs)
			if ab := x.Abnormal(); ab != "" && !strings.HasPrefix(ab, "deadlock") {
				if p.Handshake {
					add("sched/"+strings.SplitN(ab, "[", 2)[0], "scheduler verdict: "+ab+";"+ctxs)
				}
				return fs
			}
			if p.Handshake && o.shutdownDone {
				// A connection whose read goroutine reaches the holder's HandleActive only after Shutdown
				// has swept the holder is registered too late; the handshake handler behind the holder then
				// waits for the peer with nobody left to close the channel. Everything else that is wrong
				// in such an execution (stuck accept loop, leaked connection, deadlock verdict) follows from it.
				stuck, late := 0, 0
				for _, g := range o.greets {
					if g.entered && !g.done {
						stuck++
						if reg, ok := o.regStep[g.id]; ok && o.sweepStart >= 0 && reg > o.sweepStart {
							late++
						}
					}
				}
				if stuck > 0 && late == stuck {
					add("setup-channel-left-open/registered-after-holder-sweep", fmt.Sprintf("%d channel(s) that reached the holder only after Shutdown had begun to close its members are still waiting in a handshake handler: never closed without action of the peer;%s", stuck, ctxs))
					return fs
				}
				if ab := x.Abnormal(); ab != "" {
					add("sched/"+strings.SplitN(ab, "[", 2)[0], "scheduler verdict: "+ab+";"+ctxs)
				}
			}
			if !o.shutdownDone {
				add("shutdown-never-returned", "Shutdown did not return;"+ctxs)
				return fs
			}
			if o.bs.Context().Err() == nil {
				add("context-not-cancelled", "the bootstrap context is not cancelled after Shutdown;"+ctxs)
			}
			for i, a := range o.f.Acceptors {
				if !a.Closed || a.Outstanding > 0 {
					add("listener-left-accepting", fmt.Sprintf("after Shutdown acceptor %d (%s) is still open (closed=%v, blocked Accept calls=%d);%s", i, a.Name, a.Closed, a.Outstanding, ctxs))
					break
				}
			}
			nListeners := p.Listeners
			if p.Relisten {
				nListeners++
			}
			for i := 0; i < nListeners; i++ {
				errs := o.cbErrs[i]
				if len(errs) == 0 {
					if i >= p.Listeners {
						continue // the re-listen may not have happened (duplicate-listener panic)
					}
					add("accept-loop-not-ended", fmt.Sprintf("listener %d: the Async callback never ran (its accept loop did not end);%s", i, ctxs))
					continue
				}
				if len(errs) > 1 {
					add("callback-twice", fmt.Sprintf("listener %d: callback ran %d times;%s", i, len(errs), ctxs))
				}
				if !errors.Is(errs[0], netty.ErrServerClosed) && !o.listenerClosedByUser[0] {
					add("accept-loop-wrong-error", fmt.Sprintf("listener %d ended with %v instead of the server-closed error;%s", i, errs[0], ctxs))
				}
			}
			for _, a := range o.apps {
				if a.tr.Closes != 1 || a.inac != 1 {
					add("channel-not-closed", fmt.Sprintf("channel %d (%s): transport closed %d times, inactive delivered %d times after Shutdown;%s", a.id, a.tr.Name, a.tr.Closes, a.inac, ctxs))
					break
				}
				if a.act != 1 {
					add("channel-active-count", fmt.Sprintf("channel %d: active delivered %d times;%s", a.id, a.act, ctxs))
				}
			}
			// every transport handed out by the factory belongs to a channel that was closed
			for _, t := range o.f.Conns {
				if t.Closes == 0 {
					add("connection-leaked", "a connected transport ("+t.Name+") was never closed;"+ctxs)
					break
				}
			}
			for _, a := range o.f.Acceptors {
				for _, t := range a.Accepted {
					if t.Closes == 0 {
						add("connection-leaked", "an accepted connection ("+t.Name+") was never closed;"+ctxs)
						break
					}
				}
			}
			if n := hlib.HolderSize(o.holder); n > 0 {
				add("holder-not-empty", fmt.Sprintf("%d channels still registered in the holder;%s", n, ctxs))
			}
			for _, t := range x.Threads() {
				if !t.Done() && !t.Daemon {
					add("goroutine-left", "goroutine "+t.Name+" did not finish;"+ctxs)
					break
				}
			}
			return fs
		},
	}
}

func build(tier string) []*explore.Scenario {
	b := 2
	if tier == "thorough" {
		b = 3
	}
	plans := []plan{
		{Listeners: 1},
		{Listeners: 1, EarlyShut: true},
		{Listeners: 2},
		{Listeners: 1, Inbound: 1},
		{Listeners: 1, Inbound: 2},
		{Connects: 1},
		{Connects: 2},
		{Listeners: 1, LClose: true},
		{Listeners: 1, LClose: true, Relisten: true},
		{Listeners: 2, Inbound: 1, EarlyShut: true},
		{Listeners: 1, Inbound: 1, Handshake: true},
		{Connects: 1, Handshake: true},
		{Listeners: 1, Inbound: 1, ParentCancel: true},
		{Listeners: 1, Connects: 1, ParentCancel: true},
		{Connects: 1, StalledWriter: true},
	}
	if tier == "thorough" {
		plans = append(plans, plan{Listeners: 1, Inbound: 1, Connects: 1}) // (half of the quick budget on its own)
	}
	var scs []*explore.Scenario
	for _, p := range plans {
		bb := b
		if p.Inbound+p.Connects+p.Listeners >= 3 || p.Connects >= 2 {
			bb = b - 1 // many goroutines (one read loop per channel): one preemption less
			if tier == "thorough" {
				bb = 1 // these plans need > 15 min at two preemptions
			}
		}
		sc := scenario(p, bb)
		if p.Inbound+p.Connects+p.Listeners >= 3 {
			sc.Shards = 8
		}
		scs = append(scs, sc)
	}
	if tier == "thorough" {
		// (plans with two listeners plus inbound and outbound connections do not finish even the preemption-free level in 5 minutes: left out)
		scs = append(scs, scenario(plan{Listeners: 2, Inbound: 1, LClose: true, Relisten: true}, 2))
	}
	return scs
}

func main() {
	explore.Main(explore.Spec{
		Property:    "C13",
		Rule:        "all interleavings up to 2 (thorough 3) preemptions of k <= 2 listeners started with Listen(url).Async(cb), n <= 2 scripted inbound connections, m <= 2 client Connects, a Shutdown goroutine (or Shutdown issued right after the Async calls), optionally Listener.Close and a re-listen on the same url, over a scheduler-visible mock transport factory / acceptor, the default holder and the default queued channel factory; oracle at quiescence: bootstrap context cancelled; every acceptor ever created closed with no Accept outstanding; every Async callback ran once with the server-closed error; every accepted / connected transport belongs to a channel whose transport was closed once and whose inactive was delivered once; holder empty; no goroutine left. distinct = distinct end states",
		Assume:      []string{"channels created with a user-supplied context that is not derived from the bootstrap context and bootstraps without a holder are out of scope", "Listen calls issued after Shutdown returned are out of scope"},
		Build:       build,
		MinOutcomes: 2,
	})
}
