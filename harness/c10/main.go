//go:build verif

// C10: write snapshot semantics - buffer reuse and pool recycling never alter sent bytes.
package main

import (
	"bytes"
	"context"
	"fmt"
	"io"

	netty "github.com/go-netty/go-netty"
	"github.com/go-netty/go-netty/utils/pool/pbytes"
	"github.com/go-netty/go-netty/zz_verif/explore"
	"github.com/go-netty/go-netty/zz_verif/hlib"
	"github.com/go-netty/go-netty/zz_verif/mock"
	"github.com/go-netty/go-netty/zz_verif/vsched"
)

// entry points, including single- and three-segment vectored writes and reader-based sends
const (
	eWrite1 = iota
	eWritev1
	eWritev2
	eWritev3
	eCtxWrite1
	eCtxWritev1
	eCtxWritev2
	eWriter
	eReadFrom
	eChWriteBytes // Channel.Write([]byte) through the pipeline
	eChWriteBuf   // Channel.Write(*bytes.Buffer)
	eReadFromFrag // ReadFrom a reader that delivers its content in short reads
	eChWriteRd    // Channel.Write(io.Reader) through the pipeline
)

var epName = []string{"Write1", "Writev/1", "Writev/2", "Writev/3", "CtxWrite1", "CtxWritev/1", "CtxWritev/2", "Writer.Write", "ReadFrom", "Channel.Write([]byte)", "Channel.Write(*Buffer)", "ReadFrom/short-reads", "Channel.Write(Reader)"}

func segs(p []byte, n int) [][]byte {
	switch n {
	case 1:
		return [][]byte{p}
	case 2:
		return hlib.Split(p)
	}
	a, b := len(p)/3, 2*len(p)/3
	return [][]byte{p[:a], p[a:b], p[b:]}
}

type onlyReader struct{ r io.Reader }

func (o onlyReader) Read(p []byte) (int, error) { return o.r.Read(p) }

// shortReader hands out at most 10 bytes per Read.
type shortReader struct{ r io.Reader }

func (o shortReader) Read(p []byte) (int, error) {
	if len(p) > 10 {
		p = p[:10]
	}
	return o.r.Read(p)
}

func do(ch netty.Channel, ep int, p []byte) (int64, error) {
	bg := context.Background()
	switch ep {
	case eWrite1:
		n, err := ch.Write1(p)
		return int64(n), err
	case eWritev1, eWritev2, eWritev3:
		return ch.Writev(segs(p, ep-eWritev1+1))
	case eCtxWrite1:
		n, err := ch.CtxWrite1(bg, p)
		return int64(n), err
	case eCtxWritev1, eCtxWritev2:
		return ch.CtxWritev(bg, segs(p, ep-eCtxWritev1+1))
	case eWriter:
		n, err := ch.Writer().Write(p)
		return int64(n), err
	case eReadFrom:
		return ch.ReadFrom(onlyReader{bytes.NewReader(p)})
	case eReadFromFrag:
		return ch.ReadFrom(shortReader{bytes.NewReader(p)})
	case eChWriteBytes:
		return int64(len(p)), ch.Write(p)
	case eChWriteBuf:
		return int64(len(p)), ch.Write(bytes.NewBuffer(p))
	case eChWriteRd:
		return int64(len(p)), ch.Write(onlyReader{bytes.NewReader(p)})
	}
	panic("ep")
}

type obs struct {
	env   *hlib.Env
	calls []*hlib.Call
	eps   []int
}

func scenario(cfg hlib.ChanCfg, eps []int, sizes []int, scribbler bool, bound int) *explore.Scenario {
	return scenarioWrap(cfg, hlib.Wrap{}, eps, sizes, scribbler, bound)
}

// scenarioWrap: with a non-zero wrap the channel talks to one of the library's own buffering transport
// wrappers and the mock plays the raw connection underneath.
func scenarioWrap(cfg hlib.ChanCfg, wrap hlib.Wrap, eps []int, sizes []int, scribbler bool, bound int) *explore.Scenario {
	name := fmt.Sprintf("%s/", cfg)
	if wrap != (hlib.Wrap{}) {
		name = fmt.Sprintf("%s+%s/", cfg, wrap)
	}
	for i, e := range eps {
		if i > 0 {
			name += ","
		}
		name += fmt.Sprintf("%s(%d)", epName[e], sizes[i])
	}
	if scribbler {
		name += "/scribbler"
	}
	return &explore.Scenario{
		Name:  name,
		Bound: bound,
		Cache: true,
		Cfg:   vsched.Config{MaxSteps: 8000},
		Init:  func() any { return &obs{eps: eps} },
		Body: func(v any) {
			o := v.(*obs)
			o.env = hlib.NewEnvWrap(cfg, wrap, nil)
			max := 0
			for i := range eps {
				o.calls = append(o.calls, hlib.NewCall(i+1, hlib.Write1, sizes[i]))
				if sizes[i] > max {
					max = sizes[i]
				}
			}
			w := vsched.Go("writer", func() {
				buf := make([]byte, max) // one buffer reused for every call
				for i, c := range o.calls {
					p := buf[:c.Size]
					copy(p, mock.Payload(c.ID, c.Size))
					c.Begin = vsched.X.Steps()
					c.N, c.Err = do(o.env.Ch, eps[i], p)
					c.End = vsched.X.Steps()
					for j := range buf { // the caller immediately reuses its buffer
						buf[j] = 0xEE
					}
				}
			})
			ths := []*vsched.Thread{w}
			if scribbler {
				ths = append(ths, vsched.Go("scribbler", func() {
					// another pool user: obtains buffers of the same size classes and scribbles on them
					seen := map[int]bool{}
					for _, sz := range sizes {
						if seen[sz] {
							continue
						}
						seen[sz] = true
						b := pbytes.Get(sz)
						s := (*b)[:cap(*b)]
						for j := range s {
							s[j] = 0xDD
						}
						s = s[:0]
						pbytes.Put(&s)
					}
				}))
			}
			for _, t := range ths {
				vsched.Join(t)
			}
		},
		Outcome: func(x *vsched.Exec, v any) string {
			o := v.(*obs)
			s := o.env.T.LogString() + " |"
			for _, c := range o.calls {
				s += " " + c.String()
			}
			return s
		},
		Check: func(x *vsched.Exec, v any) []explore.Finding {
			o := v.(*obs)
			calls := map[int]*hlib.Call{}
			for _, c := range o.calls {
				calls[c.ID] = c
			}
			t := o.env.T
			var fs []explore.Finding
			seq, perr := hlib.ParseWire(t.Wire(), calls)
			if perr != "" {
				// attribute to the entry point of the affected payload when it can be identified
				key := "altered-bytes"
				if len(seq) < len(o.calls) {
					key += "/" + epName[o.eps[len(seq)]]
				}
				return []explore.Finding{{Key: key, Msg: "the transmitted bytes are not the bytes the callers' buffers held at call time: " + perr + "; log: " + t.LogString()}}
			}
			if x.Abnormal() == "" {
				on := map[int]bool{}
				for _, id := range seq {
					on[id] = true
				}
				for i, c := range o.calls {
					if c.OK() && c.Size > 0 && !on[c.ID] {
						fs = append(fs, explore.Finding{Key: "accepted-not-sent/" + epName[o.eps[i]], Msg: fmt.Sprintf("payload #%d accepted but never transmitted; log: %s", c.ID, t.LogString())})
					}
					if c.Err != nil && c.N == 0 && on[c.ID] && o.eps[i] < eChWriteBytes {
						fs = append(fs, explore.Finding{Key: "rejected-call-sent/" + epName[o.eps[i]], Msg: fmt.Sprintf("call #%d returned (0, %v) but bytes carrying its payload were transmitted; log: %s", c.ID, c.Err, t.LogString())})
					}
				}
			}
			return fs
		},
	}
}

// afterFailure: a channel whose transport starts failing while more than one sender batch is queued is
// torn down (the failing sender, then Close draining the rest); afterwards a healthy channel sends
// payloads of the same size class from a reused buffer. Whatever the failed channel did with its pooled
// buffers must not disturb the healthy channel's payloads (the pool is process-wide).
func afterFailure(q int, bound int) *explore.Scenario {
	type fobs struct {
		a, b  *hlib.Env
		calls []*hlib.Call
	}
	return &explore.Scenario{
		Name:  fmt.Sprintf("aq(%d,B) with a failing transport and %d queued writes, then a healthy channel", q, q+1),
		Bound: bound,
		Cache: true,
		Cfg:   vsched.Config{MaxSteps: 8000},
		Init:  func() any { return &fobs{} },
		Body: func(v any) {
			o := v.(*fobs)
			o.a = hlib.NewEnv(hlib.ChanCfg{Q: q, Until: true}, nil)
			o.a.T.FailWritesFrom = 1
			w := vsched.Go("writer", func() {
				buf := make([]byte, 8)
				for i := 0; i < q+1; i++ {
					copy(buf, mock.Payload(100+i, 8))
					o.a.Ch.Write1(buf) // may fail once the channel has been closed by the failing sender
				}
				o.a.Ch.Close(nil)
				// the healthy channel
				o.b = hlib.NewEnv(hlib.ChanCfg{Q: 4, Until: true}, nil)
				for i := 0; i < 3; i++ {
					c := hlib.NewCall(i+1, hlib.Write1, 6+i)
					o.calls = append(o.calls, c)
					p := buf[:c.Size]
					copy(p, mock.Payload(c.ID, c.Size))
					c.Begin = vsched.X.Steps()
					n, err := o.b.Ch.Write1(p)
					c.N, c.Err, c.End = int64(n), err, vsched.X.Steps()
					for j := range buf {
						buf[j] = 0xEE
					}
				}
			})
			vsched.Join(w)
		},
		Outcome: func(x *vsched.Exec, v any) string {
			o := v.(*fobs)
			if o.b == nil {
				return "no second channel"
			}
			return o.a.T.LogString() + " || " + o.b.T.LogString()
		},
		Check: func(x *vsched.Exec, v any) []explore.Finding {
			o := v.(*fobs)
			if o.b == nil || x.Abnormal() != "" {
				return nil
			}
			calls := map[int]*hlib.Call{}
			for _, c := range o.calls {
				calls[c.ID] = c
			}
			seq, perr := hlib.ParseWire(o.b.T.Wire(), calls)
			if perr != "" {
				return []explore.Finding{{Key: "altered-bytes/healthy-channel-after-a-failed-one", Msg: "the healthy channel transmitted bytes its callers never wrote: " + perr + "; log: " + o.b.T.LogString()}}
			}
			var fs []explore.Finding
			on := map[int]bool{}
			for _, id := range seq {
				on[id] = true
			}
			for _, c := range o.calls {
				if c.OK() && !on[c.ID] {
					fs = append(fs, explore.Finding{Key: "accepted-not-sent/healthy-channel-after-a-failed-one", Msg: fmt.Sprintf("payload #%d accepted by the healthy channel but never transmitted; log: %s", c.ID, o.b.T.LogString())})
				}
			}
			return fs
		},
	}
}

func build(tier string) []*explore.Scenario {
	var scs []*explore.Scenario
	bound := 2
	if tier == "thorough" {
		bound = 3
	}
	cfgs := []hlib.ChanCfg{{1, true}, {2, true}, {0, false}}
	if tier == "thorough" {
		cfgs = append(cfgs, hlib.ChanCfg{3, true}, hlib.ChanCfg{4, true}) // (non-blocking queues refuse writes with queue-full: truncated messages are not alterations)
	}
	type mix struct {
		eps   []int
		sizes []int
	}
	mixes := []mix{
		{[]int{eWrite1, eWritev2, eWrite1}, []int{8, 8, 8}},
		{[]int{eWritev1, eWritev1, eCtxWritev1}, []int{8, 8, 8}},
		{[]int{eWritev3, eCtxWrite1, eWriter}, []int{1024, 1024, 1024}},
		{[]int{eReadFrom, eReadFrom, eWrite1}, []int{8, 1500, 8}},
		{[]int{eReadFrom, eWrite1, eReadFrom}, []int{1024, 1024, 2048}},
		{[]int{eChWriteBytes, eChWriteBuf, eChWriteBytes}, []int{8, 1500, 2048}},
		{[]int{eCtxWritev2, eCtxWritev1, eWritev1}, []int{1500, 2048, 1500}},
		{[]int{eReadFromFrag, eWrite1, eReadFromFrag}, []int{20, 8, 15}},
	}
	for _, cfg := range cfgs {
		for _, m := range mixes {
			for _, scr := range []bool{false, true} {
				sc := scenario(cfg, m.eps, m.sizes, scr, bound)
				if m.eps[0] == eReadFromFrag {
					// many small chunks: one preemption less, sharded
					sc.Bound = bound - 1
					sc.Shards = 4
				}
				scs = append(scs, sc)
			}
		}
	}
	// over the library's buffering wrappers (write buffer smaller than / larger than the payloads)
	for _, cfg := range []hlib.ChanCfg{{2, true}, {0, false}} {
		for _, wrap := range []hlib.Wrap{{0, 16}, {16, 4096}} {
			scs = append(scs,
				scenarioWrap(cfg, wrap, []int{eWrite1, eWritev2, eWrite1}, []int{8, 1500, 8}, false, bound),
				scenarioWrap(cfg, wrap, []int{eWritev3, eCtxWrite1, eReadFrom}, []int{1024, 8, 1500}, true, bound-1),
			)
		}
	}
	scs = append(scs, afterFailure(4, 1))
	if tier == "thorough" {
		scs = append(scs, afterFailure(4, 2), afterFailure(8, 2))
	}
	// Rejected writes on a full non-blocking queue (single-chunk payloads only: nothing is ever partially
	// accepted) followed by accepted writes of the same size class: a rejected call's buffer handling
	// must not disturb the payloads queued later.
	rej := []mix{
		{[]int{eWrite1, eReadFrom, eWrite1, eWrite1, eWrite1}, []int{8, 8, 8, 6, 7}},
		{[]int{eWritev2, eReadFrom, eWritev1, eCtxWrite1, eWrite1}, []int{8, 8, 8, 6, 7}},
		{[]int{eCtxWrite1, eWrite1, eCtxWritev2, eWritev2, eWrite1}, []int{8, 8, 8, 6, 7}},
		{[]int{eWrite1, eWrite1, eReadFrom, eWrite1, eWrite1, eWrite1}, []int{8, 8, 8, 8, 6, 7}},
	}
	for _, cfg := range []hlib.ChanCfg{{1, false}, {2, false}} {
		for _, m := range rej {
			scs = append(scs, scenario(cfg, m.eps, m.sizes, false, bound))
		}
	}
	return scs
}

func main() {
	explore.Main(explore.Spec{
		Property:    "C10",
		Rule:        "all interleavings up to the preemption bound of a writer goroutine that overwrites and reuses one buffer immediately after each of its 3 calls (all low-level entry points incl. 1/2/3-segment vectored writes, ReadFrom, Channel.Write of []byte and *bytes.Buffer; sizes 8/1024/1500/2048), the background sender, and a goroutine that gets, scribbles on and returns pooled buffers of the same size classes; deterministic LIFO pool (maximal reuse); distinct = distinct (transport log, call results) observations",
		Assume:      []string{"the mock transport copies payload bytes at call time like a socket", "sync.Pool modelled as always-reuse LIFO (a superset of the aliasing real pools can produce)"},
		Build:       build,
		MinOutcomes: 2,
	})
}
