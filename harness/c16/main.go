//go:build verif

// C16: text and JSON codecs round-trip and reject malformed frames.
package main

import (
	"bytes"
	"encoding/binary"
	"encoding/json"
	"fmt"
	"io"
	"reflect"
	"strings"

	netty "github.com/go-netty/go-netty"
	"github.com/go-netty/go-netty/codec/format"
	"github.com/go-netty/go-netty/codec/frame"
	"github.com/go-netty/go-netty/zz_verif/clib"
	"github.com/go-netty/go-netty/zz_verif/explore"
	"github.com/go-netty/go-netty/zz_verif/vsched"
)

type plainReader struct{ r io.Reader }

func (p plainReader) Read(b []byte) (int, error) { return p.r.Read(b) }

var inCarriers = []string{"[]byte", "string", "*bytes.Buffer", "*bytes.Reader", "*strings.Reader", "io.Reader", "[][]byte", "io.Reader/data+EOF", "io.Reader/short-reads",
	// a carrier whose first two bytes (a routing tag) were consumed by an upstream handler: the frame is the unread remainder
	"*strings.Reader/tag-consumed", "*bytes.Reader/tag-consumed", "*bytes.Buffer/tag-consumed"}

// fragReader: a plain io.Reader (not a WriterTo) with scripted behaviour: at most `max` bytes per
// Read (0 = unlimited), the last bytes optionally delivered together with io.EOF.
type fragReader struct {
	data    []byte
	max     int
	withEOF bool
}

func (r *fragReader) Read(p []byte) (int, error) {
	if len(r.data) == 0 {
		return 0, io.EOF
	}
	n := len(p)
	if r.max > 0 && n > r.max {
		n = r.max
	}
	n = copy(p[:n], r.data)
	r.data = r.data[n:]
	if len(r.data) == 0 && r.withEOF {
		return n, io.EOF
	}
	return n, nil
}

// carry wraps b; scribble (may be nil) overwrites the memory the carrier aliases.
func carry(kind string, b []byte) (msg any, scribble func()) {
	own := append([]byte{}, b...)
	scr := func() {
		for i := range own {
			own[i] = '#'
		}
	}
	switch kind {
	case "*strings.Reader/tag-consumed":
		r := strings.NewReader("TG" + string(b))
		io.ReadFull(r, make([]byte, 2))
		return r, nil
	case "*bytes.Reader/tag-consumed":
		own = append([]byte("TG"), b...)
		r := bytes.NewReader(own)
		io.ReadFull(r, make([]byte, 2))
		return r, scr
	case "*bytes.Buffer/tag-consumed":
		own = append([]byte("TG"), b...)
		r := bytes.NewBuffer(own)
		io.ReadFull(r, make([]byte, 2))
		return r, scr
	case "string":
		return string(b), nil
	case "*bytes.Buffer":
		return bytes.NewBuffer(own), scr
	case "*bytes.Reader":
		return bytes.NewReader(own), scr
	case "*strings.Reader":
		return strings.NewReader(string(b)), nil
	case "io.Reader":
		return plainReader{bytes.NewReader(own)}, scr
	case "io.Reader/data+EOF":
		return &fragReader{data: own, withEOF: true}, scr
	case "io.Reader/short-reads":
		return &fragReader{data: own, max: 3, withEOF: len(own)%2 == 1}, scr
	case "[][]byte":
		h := len(own) / 2
		return [][]byte{own[:h], own[h:]}, scr
	}
	return own, scr
}

// deliver runs one inbound message through pipeline(handlers..., sink) and returns
// the deliveries and the exception (a recovered panic) if any.
func deliver(handlers []netty.Handler, msg any) (sink *clib.Sink, exc any) {
	sink = &clib.Sink{}
	pl := netty.NewPipeline()
	pl.AddLast(handlers...)
	pl.AddLast(sink)
	func() {
		defer func() { exc = recover() }()
		pl.FireChannelRead(msg)
	}()
	return
}

// ---------------------------------------------------------------- text

type tcase struct {
	S       []byte `json:"s"`
	Pipe    string `json:"pipe"`    // "text" | "delimiter+text" | "lengthfield+text"
	Carrier string `json:"carrier"` // inbound carrier for the direct test
}

func textPipe(name string) []netty.Handler {
	switch name {
	case "delimiter+text":
		return []netty.Handler{frame.DelimiterCodec(1<<20, "\r\n", true), format.TextCodec()}
	case "lengthfield+text":
		return []netty.Handler{frame.LengthFieldCodec(binary.BigEndian, 1<<20, 0, 4, 0, 4), format.TextCodec()}
	case "varint+text":
		return []netty.Handler{frame.VarintLengthFieldCodec(1 << 20), format.TextCodec()}
	}
	return []netty.Handler{format.TextCodec()}
}

func runText(tc tcase) (string, string) {
	s := string(tc.S)
	desc := fmt.Sprintf("text %q (%d bytes) via %s / %s", clipS(s), len(s), tc.Pipe, tc.Carrier)
	if tc.Carrier != "" {
		// direct: the text codec receives the frame in the given carrier; the receiver keeps the
		// string, the upstream buffer is reused afterwards
		msg, scribble := carry(tc.Carrier, tc.S)
		sink, exc := deliver([]netty.Handler{format.TextCodec()}, msg)
		if exc != nil {
			return "text-exception/" + tc.Carrier, desc + fmt.Sprintf(": raised %v", exc)
		}
		if len(sink.Msgs) != 1 {
			return "text-deliveries", desc + fmt.Sprintf(": %d messages delivered", len(sink.Msgs))
		}
		got, ok := sink.Msgs[0].Obj.(string)
		if !ok || got != s {
			return "text-content/" + tc.Carrier, desc + fmt.Sprintf(": received %T %q", sink.Msgs[0].Obj, clipS(fmt.Sprint(sink.Msgs[0].Obj)))
		}
		if scribble != nil {
			scribble()
			if got != s {
				return "text-aliases-frame-buffer/" + tc.Carrier, desc + fmt.Sprintf(": the received string changed to %q when the upstream buffer was reused", clipS(got))
			}
		}
		return "", ""
	}
	// full stack: write the string, then decode the wire (3 messages back to back)
	hs := textPipe(tc.Pipe)
	msgs := []any{s, "x", s}
	if tc.Pipe == "text" {
		msgs = []any{s}
	}
	wire, excs, _ := clib.Encode(hs, msgs...)
	if len(excs) > 0 {
		return "text-encode-exception/" + tc.Pipe, desc + fmt.Sprintf(": writing raised %v", excs[0])
	}
	for _, frag := range [][]int{nil, clib.Ones(len(wire))} {
		if frag != nil && len(wire) > 3000 {
			continue
		}
		res := clib.Decode(textPipe(tc.Pipe), clib.Fragment(wire, frag), false, false, len(msgs)+3)
		var got []string
		for _, m := range res.Sink.Msgs {
			if str, ok := m.Obj.(string); ok {
				got = append(got, str)
			}
		}
		var want []string
		for _, m := range msgs {
			want = append(want, m.(string))
		}
		if tc.Pipe == "text" && s == "" {
			// the bare text codec delivers the whole stream at end-of-stream; an empty stream delivers ""
			if len(got) > 0 && got[0] != "" {
				return "text-roundtrip/" + tc.Pipe, desc + fmt.Sprintf(": received %q", got)
			}
			continue
		}
		if len(got) < len(want) || !reflect.DeepEqual(got[:len(want)], want) {
			return "text-roundtrip/" + tc.Pipe, desc + fmt.Sprintf(": wrote %d strings, received %d: %q", len(want), len(got), clipS(fmt.Sprint(got)))
		}
	}
	return "", ""
}

func clipS(s string) string {
	if len(s) > 40 {
		return s[:40] + "..."
	}
	return s
}

func textScenario(thorough bool) *explore.Scenario {
	return &explore.Scenario{
		Name:   "text: strings over {00,'a','\\n','$',ff}^<=4 + size classes",
		Shards: 8,
		Enum: func(c *explore.EnumCtx) {
			vsched.Run(vsched.Config{MaxSteps: 1 << 60}, func() {
				alpha := []byte{0x00, 'a', '\n', '$', 0xff, '\r'}
				var strs [][]byte
				var gen func(cur []byte)
				gen = func(cur []byte) {
					strs = append(strs, append([]byte{}, cur...))
					if len(cur) == 4 && !thorough || len(cur) == 5 {
						return
					}
					for _, a := range alpha {
						gen(append(cur, a))
					}
				}
				gen(nil)
				for _, n := range []int{1023, 1024, 1025, 2047, 2048, 2049, 4096, 65535, 65536, 65537} {
					b := bytes.Repeat([]byte{'z'}, n)
					b[n/2] = 0xfe
					b[n-1] = 0x00
					strs = append(strs, b)
				}
				for _, s := range strs {
					if !c.Mine() {
						continue
					}
					var cases []tcase
					for _, car := range inCarriers {
						cases = append(cases, tcase{S: s, Carrier: car})
					}
					for _, p := range []string{"text", "delimiter+text", "lengthfield+text", "varint+text"} {
						if p == "delimiter+text" && bytes.Contains(append(append([]byte{}, s...), '\r'), []byte("\r\n")) || p == "delimiter+text" && bytes.HasSuffix(s, []byte("\r")) {
							continue // the delimiter contract: a body must not contain / complete the delimiter
						}
						cases = append(cases, tcase{S: s, Pipe: p})
					}
					for _, tc := range cases {
						if c.Expired() {
							return
						}
						k, m := runText(tc)
						c.Case(fmt.Sprint(tc), len(s) > 0, func() any { return tc })
						c.Count(0, 1)
						if k != "" {
							c.Fail(k, m, tc)
						}
					}
				}
			})
		},
		Replay: func(c *explore.EnumCtx, desc json.RawMessage) {
			var tc tcase
			json.Unmarshal(desc, &tc)
			vsched.Run(vsched.Config{MaxSteps: 1 << 60}, func() {
				if k, m := runText(tc); k != "" {
					c.Fail(k, m, tc)
				}
			})
		},
	}
}

// ---------------------------------------------------------------- JSON

type jcase struct {
	Doc       string `json:"doc"`
	UseNumber bool   `json:"use_number"`
	Disallow  bool   `json:"disallow_unknown"`
	Carrier   string `json:"carrier"`
	Kind      string `json:"kind"` // "valid" | "prefix" | "trailing" | "non-object"
}

func refDecode(doc []byte, useNumber bool) (map[string]interface{}, error) {
	d := json.NewDecoder(bytes.NewReader(doc))
	if useNumber {
		d.UseNumber()
	}
	var v interface{}
	if err := d.Decode(&v); err != nil {
		return nil, err
	}
	m, ok := v.(map[string]interface{})
	if !ok {
		return nil, fmt.Errorf("top level is %T, not an object", v)
	}
	return m, nil
}

func runJSON(jc jcase) (string, string) {
	doc := []byte(jc.Doc)
	desc := fmt.Sprintf("JSONCodec(useNumber=%v,disallowUnknown=%v) reading %s frame %q as %s", jc.UseNumber, jc.Disallow, jc.Kind, clipS(jc.Doc), jc.Carrier)
	msg, _ := carry(jc.Carrier, doc)
	sink, exc := deliver([]netty.Handler{format.JSONCodec(jc.UseNumber, jc.Disallow)}, msg)
	want, werr := refDecode(doc, jc.UseNumber)
	if werr != nil {
		// the frame does not begin with one complete valid JSON object
		if exc == nil || len(sink.Msgs) > 0 {
			return "json-accepts-malformed/" + jc.Kind, desc + fmt.Sprintf(": delivered %v (exception %v); reference: %v", describeObjs(sink), exc, werr)
		}
		return "", ""
	}
	if exc != nil {
		return "json-rejects-valid/" + jc.Carrier, desc + fmt.Sprintf(": raised %v", exc)
	}
	if len(sink.Msgs) != 1 {
		return "json-deliveries", desc + fmt.Sprintf(": %d messages delivered", len(sink.Msgs))
	}
	got, ok := sink.Msgs[0].Obj.(map[string]interface{})
	if !ok || !reflect.DeepEqual(got, want) {
		k := "json-content/"
		if jc.UseNumber {
			k = "json-content(useNumber)/"
		}
		return k + jc.Carrier, desc + fmt.Sprintf(": delivered %#v, reference decode %#v", sink.Msgs[0].Obj, want)
	}
	if jc.Kind != "valid" {
		return "", ""
	}
	// write the object back: the emitted bytes must decode to the same object
	wire, excs, _ := clib.Encode([]netty.Handler{format.JSONCodec(jc.UseNumber, jc.Disallow)}, got)
	if len(excs) > 0 {
		return "json-encode-exception", desc + fmt.Sprintf(": writing the object back raised %v", excs[0])
	}
	back, err := refDecode(wire, jc.UseNumber)
	if err != nil || !reflect.DeepEqual(back, want) {
		return "json-encode-content", desc + fmt.Sprintf(": written back as %q which decodes to %#v (err %v)", clipS(string(wire)), back, err)
	}
	return "", ""
}

func describeObjs(s *clib.Sink) string {
	var parts []string
	for _, m := range s.Msgs {
		parts = append(parts, fmt.Sprintf("%#v", m.Obj))
	}
	return "[" + strings.Join(parts, ", ") + "]"
}

func jsonDocs() []string {
	leaves := []string{`0`, `-1`, `9007199254740993`, `1e308`, `0.1`, `""`, `"é"`, `true`, `null`, `[]`, `[1,"x"]`, `{}`, `123456789012345678901234567890`, `"é\n"`}
	keys := []string{`"a"`, `"ключ"`, `"q\"\\u0041"`}
	var docs []string
	docs = append(docs, `{}`)
	// depth 1: one or two keys
	for _, k := range keys {
		for _, l := range leaves {
			docs = append(docs, fmt.Sprintf(`{%s:%s}`, k, l))
		}
	}
	for i, l1 := range leaves {
		l2 := leaves[(i+5)%len(leaves)]
		docs = append(docs, fmt.Sprintf(`{"a":%s,"ключ":%s}`, l1, l2))
		docs = append(docs, fmt.Sprintf(`{"a":%s,"a":%s}`, l1, l2)) // duplicate key: last wins in the reference too
	}
	// depth 2
	for _, k := range keys {
		for _, l := range leaves {
			docs = append(docs, fmt.Sprintf(`{"o":{%s:%s},"z":[{"n":%s}]}`, k, l, l))
		}
	}
	docs = append(docs, ` { "a" : 1 } `, "{\"a\":1}\n", "\n\t{\"a\":[1,2,{\"b\":null}]}")
	return docs
}

func jsonScenario(thorough bool) *explore.Scenario {
	return &explore.Scenario{
		Name:   "json: object trees x flags x carriers; every proper prefix; non-object top levels",
		Shards: 8,
		Enum: func(c *explore.EnumCtx) {
			vsched.Run(vsched.Config{MaxSteps: 1 << 60}, func() {
				try := func(jc jcase) {
					if c.Expired() {
						return
					}
					k, m := runJSON(jc)
					c.Case(fmt.Sprint(jc), true, func() any { return jc })
					c.Count(0, 1)
					if k != "" {
						c.Fail(k, m, jc)
					}
				}
				docs := jsonDocs()
				for di, d := range docs {
					if !c.Mine() {
						continue
					}
					for _, un := range []bool{false, true} {
						for _, dis := range []bool{false, true} {
							for ci, car := range inCarriers {
								try(jcase{Doc: d, UseNumber: un, Disallow: dis, Carrier: car, Kind: "valid"})
								if ci != di%len(inCarriers) && !thorough {
									continue // (thorough: prefixes and trailing garbage through every carrier)
								}
								// every proper prefix is a truncated frame
								for cut := 0; cut < len(d); cut++ {
									if strings.TrimSpace(d[cut:]) == "" {
										continue // only trailing white space cut off: still complete
									}
									try(jcase{Doc: d[:cut], UseNumber: un, Disallow: dis, Carrier: car, Kind: "prefix"})
								}
								for _, g := range []string{"}", "x", " 1", `{"b":2}`, "\x00"} {
									try(jcase{Doc: d + g, UseNumber: un, Disallow: dis, Carrier: car, Kind: "trailing"})
								}
							}
						}
					}
				}
				for _, d := range []string{`null`, ` null`, `[]`, `[{"a":1}]`, `1`, `-0.5`, `"str"`, `true`, `false`, ``, ` `, `nul`, `{`, `}`, `[`, `{"a"}`, `{"a":}`, `{a:1}`, `{'a':1}`, "\xff\xfe", `{"a":1,}`} {
					for _, un := range []bool{false, true} {
						for _, dis := range []bool{false, true} {
							for _, car := range inCarriers {
								try(jcase{Doc: d, UseNumber: un, Disallow: dis, Carrier: car, Kind: "non-object"})
							}
						}
					}
				}
			})
		},
		Replay: func(c *explore.EnumCtx, desc json.RawMessage) {
			var jc jcase
			json.Unmarshal(desc, &jc)
			vsched.Run(vsched.Config{MaxSteps: 1 << 60}, func() {
				if k, m := runJSON(jc); k != "" {
					c.Fail(k, m, jc)
				}
			})
		},
	}
}

func main() {
	explore.Main(explore.Spec{
		Property: "C16",
		Rule:     "text: every string of length <= 4 (thorough 5) over {0x00,'a','\\n','\\r','$',0xff} plus sizes across the pool classes (1023..65537, with NUL and invalid UTF-8 bytes), (a) handed to the text codec in each of 12 carriers (incl. readers whose leading tag bytes were already consumed) with the upstream buffer overwritten afterwards (the retained string must not change), (b) written and read back through text alone / delimiter+text / length-field+text / varint+text with whole-buffer and 1-byte reads. JSON: object trees of depth <= 2 over ascii / unicode / escaped keys and 14 leaves (integers beyond 2^53, 1e308, 0.1, strings, bool, null, arrays, nested objects, duplicate keys) x useNumber x disallowUnknown x 7 carriers compared with encoding/json's own decode and written back; every proper prefix of every document, trailing garbage, and 21 non-object / malformed top levels must raise an exception and deliver nothing. distinct = distinct cases",
		Assume:   []string{"a frame that begins with one complete object followed by other bytes may be delivered as that object (the statement only requires the frame to begin with a complete object)", "encoding/json is the reference"},
		Build: func(tier string) []*explore.Scenario {
			return []*explore.Scenario{textScenario(tier == "thorough"), jsonScenario(tier == "thorough")}
		},
	})
}
