//go:build verif

// C14: accepted outbound types are sent byte-exact; conversion helpers preserve content.
package main

import (
	"bytes"
	"encoding/json"
	"fmt"
	"io"
	"net"
	"strings"

	netty "github.com/go-netty/go-netty"
	"github.com/go-netty/go-netty/utils"
	"github.com/go-netty/go-netty/zz_verif/clib"
	"github.com/go-netty/go-netty/zz_verif/explore"
	"github.com/go-netty/go-netty/zz_verif/hlib"
	"github.com/go-netty/go-netty/zz_verif/mock"
	"github.com/go-netty/go-netty/zz_verif/vsched"
)

// ---------------------------------------------------------------- reader / writer behaviours

// fragReader returns data according to a read-size pattern; optionally the last
// data together with io.EOF, optionally (0, nil) reads in between.
type fragReader struct {
	data    []byte
	sizes   []int // read sizes, cycled; 0 = a (0, nil) read
	i       int
	withEOF bool
}

func (r *fragReader) Read(p []byte) (int, error) {
	if len(r.data) == 0 {
		return 0, io.EOF
	}
	n := len(p)
	if len(r.sizes) > 0 {
		s := r.sizes[r.i%len(r.sizes)]
		r.i++
		if s == 0 {
			return 0, nil
		}
		if s < n {
			n = s
		}
	}
	n = copy(p[:n], r.data)
	r.data = r.data[n:]
	if len(r.data) == 0 && r.withEOF {
		return n, io.EOF
	}
	return n, nil
}

// reusingWriterTo writes its content in chunks from ONE reused buffer (legal per io.Writer:
// Write must not retain p).
type reusingWriterTo struct {
	data  []byte
	chunk int
}

func (w *reusingWriterTo) WriteTo(dst io.Writer) (int64, error) {
	buf := make([]byte, w.chunk)
	var total int64
	for off := 0; off < len(w.data); off += w.chunk {
		n := copy(buf, w.data[off:])
		k, err := dst.Write(buf[:n])
		total += int64(k)
		if err != nil {
			return total, err
		}
	}
	return total, nil
}

// ropeWriterTo writes stable sub-slices of one array (never reused): safe to steal from.
type ropeWriterTo struct{ parts [][]byte }

func (w *ropeWriterTo) WriteTo(dst io.Writer) (int64, error) {
	var total int64
	for _, p := range w.parts {
		k, err := dst.Write(p)
		total += int64(k)
		if err != nil {
			return total, err
		}
	}
	return total, nil
}

func content(n int) []byte { return mock.Payload(7, n) }

// ---------------------------------------------------------------- part A: head-of-pipeline carriers

type carrierT struct {
	name string
	mk   func(b []byte) any
}

var carriers = []carrierT{
	{"[]byte", func(b []byte) any { return b }},
	{"[][]byte/0", func(b []byte) any { return [][]byte{} }},
	{"[][]byte/1", func(b []byte) any { return [][]byte{b} }},
	{"[][]byte/2", func(b []byte) any { return hlib.Split(b) }},
	{"[][]byte/3+empty", func(b []byte) any { h := len(b) / 2; return [][]byte{b[:h], {}, b[h:]} }},
	{"*bytes.Buffer", func(b []byte) any { return bytes.NewBuffer(append([]byte{}, b...)) }},
	{"*bytes.Reader", func(b []byte) any { return bytes.NewReader(b) }},
	{"*strings.Reader", func(b []byte) any { return strings.NewReader(string(b)) }},
	{"WriterTo/reusing-buffer", func(b []byte) any { return &reusingWriterTo{b, 700} }},
	{"net.Buffers", func(b []byte) any { nb := net.Buffers(hlib.Split(append([]byte{}, b...))); return &nb }},
	{"io.Reader", func(b []byte) any { return &fragReader{data: b} }},
	{"io.Reader/short-reads", func(b []byte) any { return &fragReader{data: b, sizes: []int{1, 500, 3}} }},
	{"io.Reader/data+EOF", func(b []byte) any { return &fragReader{data: b, withEOF: true} }},
	{"io.Reader/zero-reads", func(b []byte) any { return &fragReader{data: b, sizes: []int{0, 1000}} }},
}

var smallSizes = []int{0, 1, 1023, 1024, 1025}
var midSizes = []int{2048, 2049}
var bigSizes = []int{65536, 65537}

type aobs struct {
	env  *hlib.Env
	sink *clib.Sink
	want []byte
	errs []error
}

func carrierScenario(cfg hlib.ChanCfg, ca carrierT, sizes []int, bound int) *explore.Scenario {
	return &explore.Scenario{
		Name:  fmt.Sprintf("send/%s/%s/sizes=%v", cfg, ca.name, sizes),
		Bound: bound,
		Cache: true,
		Cfg:   vsched.Config{MaxSteps: 60000},
		Init:  func() any { return &aobs{} },
		Body: func(v any) {
			o := v.(*aobs)
			o.sink = &clib.Sink{Swallow: true}
			o.env = hlib.NewEnv(cfg, nil, &hlib.Reader{}, o.sink)
			for _, n := range sizes {
				b := content(n)
				if strings.HasPrefix(ca.name, "[][]byte/0") {
					b = nil
				}
				o.want = append(o.want, b...)
				if err := o.env.Ch.Write(ca.mk(append([]byte{}, b...))); err != nil {
					o.errs = append(o.errs, err)
				}
			}
		},
		Outcome: func(x *vsched.Exec, v any) string {
			o := v.(*aobs)
			return fmt.Sprint(len(o.env.T.Wire()), len(o.env.T.Log), len(o.sink.Exceptions))
		},
		Check: func(x *vsched.Exec, v any) []explore.Finding {
			o := v.(*aobs)
			key := "send/" + ca.name
			if len(o.errs) > 0 || len(o.sink.Exceptions) > 0 {
				return []explore.Finding{{Key: key + "/exception", Msg: fmt.Sprintf("%s on %s: writing raised %v %v", ca.name, cfg, o.errs, o.sink.Exceptions)}}
			}
			if x.Abnormal() != "" {
				return nil
			}
			got := o.env.T.Wire()
			if !bytes.Equal(got, o.want) {
				at := 0
				for at < len(got) && at < len(o.want) && got[at] == o.want[at] {
					at++
				}
				return []explore.Finding{{Key: key + "/bytes", Msg: fmt.Sprintf("%s messages of sizes %v on %s: transport received %d bytes, expected %d; first difference at offset %d", ca.name, sizes, cfg, len(got), len(o.want), at)}}
			}
			if o.env.T.Unflushed > 0 {
				return []explore.Finding{{Key: key + "/unflushed", Msg: "bytes left unflushed"}}
			}
			return nil
		},
	}
}

type unsupported struct{ X int }

func unsupportedScenario(cfg hlib.ChanCfg) *explore.Scenario {
	vals := []any{"a string", 42, nil, unsupported{1}, &unsupported{2}, 3.5, []string{"x"}, []int{1}}
	return &explore.Scenario{
		Name:  fmt.Sprintf("send/%s/unsupported-types", cfg),
		Bound: 1,
		Cfg:   vsched.Config{MaxSteps: 20000},
		Init:  func() any { return &aobs{} },
		Body: func(v any) {
			o := v.(*aobs)
			o.sink = &clib.Sink{Swallow: true}
			o.env = hlib.NewEnv(cfg, nil, &hlib.Reader{}, o.sink)
			for _, m := range vals {
				before := len(o.sink.Exceptions)
				if err := o.env.Ch.Write(m); err != nil {
					o.errs = append(o.errs, err)
				}
				if len(o.sink.Exceptions) != before+1 {
					o.errs = append(o.errs, fmt.Errorf("writing a %T raised %d exceptions", m, len(o.sink.Exceptions)-before))
				}
			}
		},
		Outcome: func(x *vsched.Exec, v any) string {
			o := v.(*aobs)
			return fmt.Sprint(len(o.env.T.Wire()), len(o.sink.Exceptions))
		},
		Check: func(x *vsched.Exec, v any) []explore.Finding {
			o := v.(*aobs)
			var fs []explore.Finding
			if len(o.errs) > 0 {
				fs = append(fs, explore.Finding{Key: "unsupported/no-exception", Msg: fmt.Sprint("unsupported message types must raise exactly one exception each: ", o.errs)})
			}
			if n := len(o.env.T.Wire()); n > 0 {
				fs = append(fs, explore.Finding{Key: "unsupported/bytes-sent", Msg: fmt.Sprintf("%d bytes transmitted for unsupported message types", n)})
			}
			return fs
		},
	}
}

// ---------------------------------------------------------------- part B: helpers

type hcase struct {
	Helper string `json:"helper"`
	Input  string `json:"input"`
	N      int    `json:"n"`
	Sizes  []int  `json:"read_sizes,omitempty"`
	EOF    bool   `json:"data_with_eof,omitempty"`
	Skip   int    `json:"consumed_before,omitempty"` // bytes the caller already read from the carrier
}

func mkInput(hc hcase) (in any, want []byte, supported map[string]bool) {
	in, want, supported = mkInput0(hc)
	if hc.Skip > 0 {
		// a partially consumed carrier stands for its unread remainder
		if r, ok := in.(io.Reader); ok {
			io.ReadFull(r, make([]byte, hc.Skip))
			want = want[hc.Skip:]
		}
	}
	return
}

func mkInput0(hc hcase) (in any, want []byte, supported map[string]bool) {
	b := content(hc.N)
	all := map[string]bool{"ToBytes": true, "ToReader": true}
	switch hc.Input {
	case "[]byte":
		return b, b, all
	case "[][]byte":
		h := len(b) / 3
		return [][]byte{b[:h], {}, b[h:]}, b, all
	case "string":
		return string(b), b, all
	case "*bytes.Buffer":
		return bytes.NewBuffer(append([]byte{}, b...)), b, all
	case "*bytes.Reader":
		return bytes.NewReader(b), b, all
	case "*strings.Reader":
		return strings.NewReader(string(b)), b, all
	case "WriterTo/reusing-buffer":
		ch := 3
		if len(hc.Sizes) > 0 && hc.Sizes[0] > 0 {
			ch = hc.Sizes[0]
		}
		return &reusingWriterTo{b, ch}, b, map[string]bool{"ToBytes": true, "StealBytes": true}
	case "WriterTo/rope":
		// stable sub-slices of one array with spare capacity behind the first part
		arr := append([]byte{}, b...)
		i := len(arr) / 3
		sep := []byte("--")
		return &ropeWriterTo{[][]byte{arr[:i], sep, arr[i:]}}, append(append(append([]byte{}, b[:i]...), sep...), b[i:]...), map[string]bool{"ToBytes": true, "StealBytes": true, "ByteStealer": true}
	case "net.Buffers":
		arr := append([]byte{}, b...)
		i := len(arr) / 2
		nb := net.Buffers{arr[:i], []byte("|"), arr[i:]}
		return &nb, append(append(append([]byte{}, b[:i]...), '|'), b[i:]...), map[string]bool{"ToBytes": true, "ToReader": true, "StealBytes": true, "ByteStealer": true}
	case "io.Reader":
		return &fragReader{data: b, sizes: hc.Sizes, withEOF: hc.EOF}, b, all
	case "int":
		return 42, nil, map[string]bool{}
	case "nil":
		return nil, nil, map[string]bool{}
	case "struct":
		return unsupported{1}, nil, map[string]bool{}
	}
	panic("input")
}

func runHelper(hc hcase) (string, string) {
	in, want, sup := mkInput(hc)
	desc := fmt.Sprintf("%s(%s, %d bytes, read sizes %v, data+EOF=%v)", hc.Helper, hc.Input, hc.N, hc.Sizes, hc.EOF)
	if hc.Skip > 0 {
		desc = fmt.Sprintf("%s(%s of %d bytes with %d already consumed, read sizes %v, data+EOF=%v)", hc.Helper, hc.Input, hc.N, hc.Skip, hc.Sizes, hc.EOF)
	}
	cmp := func(got []byte, err error, supported bool) (string, string) {
		if !supported {
			if err == nil {
				return "helper-accepts-unsupported/" + hc.Helper, desc + ": returned no error for an unsupported input"
			}
			return "", ""
		}
		if err != nil {
			return "helper-error/" + hc.Helper + "/" + hc.Input, desc + fmt.Sprintf(": returned error %v", err)
		}
		if !bytes.Equal(got, want) {
			return "helper-content/" + hc.Helper + "/" + hc.Input, desc + fmt.Sprintf(": returned %q, content is %q", clip(got), clip(want))
		}
		return "", ""
	}
	switch hc.Helper {
	case "ToBytes":
		got, err := utils.ToBytes(in)
		return cmp(got, err, sup["ToBytes"])
	case "ToReader":
		r, err := utils.ToReader(in)
		if err != nil || !sup["ToReader"] {
			return cmp(nil, err, sup["ToReader"])
		}
		got, err := io.ReadAll(r)
		return cmp(got, err, true)
	case "StealBytes":
		wt, ok := in.(io.WriterTo)
		if !ok {
			return "", ""
		}
		got, err := utils.StealBytes(wt)
		return cmp(got, err, true)
	case "ByteStealer":
		wt, ok := in.(io.WriterTo)
		if !ok || !sup["ByteStealer"] {
			return "", ""
		}
		var st utils.ByteStealer
		_, err := wt.WriteTo(&st)
		return cmp(st.Data, err, true)
	case "ByteReader":
		r, ok := in.(io.Reader)
		if !ok {
			return "", ""
		}
		br := utils.NewByteReader(r)
		var got []byte
		for i := 0; i < hc.N+4; i++ {
			c, err := br.ReadByte()
			if err == io.EOF {
				break
			}
			if err != nil {
				return cmp(nil, err, true)
			}
			got = append(got, c)
		}
		return cmp(got, nil, true)
	case "CountOf":
		bs, ok := in.([][]byte)
		if !ok {
			return "", ""
		}
		if n := utils.CountOf(bs); n != int64(len(want)) {
			return "helper-content/CountOf", desc + fmt.Sprintf(": returned %d for %d bytes", n, len(want))
		}
	}
	return "", ""
}

func clip(b []byte) []byte {
	if len(b) > 24 {
		return b[:24]
	}
	return b
}

func helpers() *explore.Scenario {
	return &explore.Scenario{
		Name:   "helpers x carriers x reader behaviours",
		Shards: 4,
		Enum: func(c *explore.EnumCtx) {
			try := func(hc hcase) {
				if c.Expired() {
					return
				}
				k, m := runHelper(hc)
				c.Case(fmt.Sprint(hc), true, func() any { return hc })
				c.Count(0, 1)
				if k != "" {
					c.Fail(k, m, hc)
				}
			}
			hs := []string{"ToBytes", "ToReader", "StealBytes", "ByteStealer", "ByteReader", "CountOf"}
			for _, h := range hs {
				for _, in := range []string{"[]byte", "[][]byte", "string", "*bytes.Buffer", "*bytes.Reader", "*strings.Reader", "WriterTo/rope", "net.Buffers", "int", "nil", "struct"} {
					for _, n := range []int{0, 1, 2, 9, 1023, 1024, 1025, 4096, 65537} {
						if c.Mine() {
							try(hcase{Helper: h, Input: in, N: n})
						}
					}
				}
				// partially consumed carriers: the unread remainder is the message
				for _, in := range []string{"*bytes.Buffer", "*bytes.Reader", "*strings.Reader", "io.Reader"} {
					for _, n := range []int{1, 2, 9, 1025, 4096} {
						for _, sk := range []int{1, n / 2, n - 1, n} {
							if sk > 0 && sk <= n && c.Mine() {
								try(hcase{Helper: h, Input: in, N: n, Skip: sk, Sizes: []int{3}})
							}
						}
					}
				}
				// buffer-reusing WriterTo with every chunk size for short contents
				for n := 1; n <= 12; n++ {
					for ch := 1; ch <= n; ch++ {
						if c.Mine() {
							try(hcase{Helper: h, Input: "WriterTo/reusing-buffer", N: n, Sizes: []int{ch}})
						}
					}
				}
				for _, n := range []int{600, 1024, 40000} {
					try(hcase{Helper: h, Input: "WriterTo/reusing-buffer", N: n, Sizes: []int{512}})
				}
				// plain readers: every fragmentation (composition) of streams up to 10 bytes, with and
				// without data+EOF; plus (0,nil) reads for the byte reader
				for n := 1; n <= 10; n++ {
					clib.Compositions(n, func(cuts []int) {
						if !c.Mine() {
							return
						}
						var sz []int
						prev := 0
						for _, cu := range cuts {
							sz = append(sz, cu-prev)
							prev = cu
						}
						sz = append(sz, n-prev)
						for _, weof := range []bool{false, true} {
							try(hcase{Helper: h, Input: "io.Reader", N: n, Sizes: sz, EOF: weof})
						}
					})
				}
				for _, sz := range [][]int{{0, 1}, {0, 0, 3}, {2, 0}} {
					for _, weof := range []bool{false, true} {
						try(hcase{Helper: h, Input: "io.Reader", N: 7, Sizes: sz, EOF: weof})
					}
				}
				for _, n := range []int{1024, 1025, 65537} {
					try(hcase{Helper: h, Input: "io.Reader", N: n, Sizes: []int{1000, 1, 24}, EOF: true})
				}
			}
		},
		Replay: func(c *explore.EnumCtx, desc json.RawMessage) {
			var hc hcase
			json.Unmarshal(desc, &hc)
			if k, m := runHelper(hc); k != "" {
				c.Fail(k, m, hc)
			}
		},
	}
}

func build(tier string) []*explore.Scenario {
	var scs []*explore.Scenario
	cfgs := []hlib.ChanCfg{{0, false}, {2, true}}
	if tier == "thorough" {
		cfgs = append(cfgs, hlib.ChanCfg{1, true}, hlib.ChanCfg{4, true})
	}
	for _, cfg := range cfgs {
		for _, ca := range carriers {
			b := 1
			if tier == "thorough" {
				b = 2
			}
			// schedules of the background sender are explored for the small sizes; the large
			// messages (hundreds of chunks) run under the default schedule only
			scs = append(scs, carrierScenario(cfg, ca, smallSizes, b), carrierScenario(cfg, ca, midSizes, b-1), carrierScenario(cfg, ca, bigSizes, 0))
		}
		scs = append(scs, unsupportedScenario(cfg))
	}
	scs = append(scs, helpers())
	return scs
}

var _ netty.Handler

func main() {
	explore.Main(explore.Spec{
		Property: "C14",
		Rule:     "(A) each head-of-pipeline carrier ([]byte, [][]byte with 0/1/2/3 parts incl. empty, *bytes.Buffer, *bytes.Reader, *strings.Reader, buffer-reusing multi-write io.WriterTo, *net.Buffers, plain io.Reader with full / short / data+EOF / zero-length reads) x sizes {0,1,1023,1024,1025 | 2048,2049 | 65536,65537} written through Channel.Write on sync and aq(2,B); sender schedules explored up to 1 (thorough 2) preemptions for the small sizes, 0 (1) for the middle ones, default schedule for the large ones: transport bytes == message bytes; 8 unsupported types: one exception each, nothing sent. (B) ToBytes, ToReader, StealBytes, ByteStealer, NewByteReader, CountOf over every carrier x boundary sizes, every chunk size of a buffer-reusing WriterTo for contents <= 12 bytes, every fragmentation (2^(n-1) compositions) of reader streams <= 10 bytes with and without data+EOF, and (0,nil) reads: result == content, error for unsupported inputs. distinct = distinct cases / observations",
		Assume:   []string{"ByteStealer is only handed writers that pass stable (not reused) slices; buffer-reusing writers go through StealBytes/ToBytes"},
		Build:    build,
	})
}
