//go:build verif

// Package mock provides the closed environment of the harnesses: a scripted,
// scheduler-visible transport / acceptor / factory, payload tokens and helpers.
package mock

import (
	"errors"
	"fmt"
	"io"
	"net"
	"strings"
	"time"

	"github.com/go-netty/go-netty/transport"
	"github.com/go-netty/go-netty/zz_verif/vsched"
)

const rw = vsched.RD | vsched.WR

// Ev is one transport call (an attempt: calls after Close are logged too).
type Ev struct {
	Kind   byte // 'W' Write, 'V' Writev, 'F' Flush, 'C' Close, 'D' SetWriteDeadline, 'R' Read, 'M' harness marker
	Data   []byte
	Parts  int
	Step   int
	Now    int64 // virtual time (ns)
	Thread string
	Failed bool // the call returned an error
	Closed bool // the transport was already closed when the call was made
	Note   string
}

// TimeoutErr is a net.Error with Timeout() == true.
type TimeoutErr struct{}

func (TimeoutErr) Error() string   { return "mock: i/o timeout" }
func (TimeoutErr) Timeout() bool   { return true }
func (TimeoutErr) Temporary() bool { return true }

// ErrClosed mimics the error of a closed network connection (a non-timeout net.Error).
func ErrClosed(op string) error {
	return &net.OpError{Op: op, Net: "mock", Err: net.ErrClosed}
}

// ErrInjected is the default injected failure (a plain error, not a net.Error).
var ErrInjected = errors.New("mock: injected transport failure")

type Transport struct {
	Name      string
	Log       []Ev
	IsClosed  bool
	Closes    int
	Unflushed int
	// inbound
	In          [][]byte // remaining scripted chunks; each Read returns at most one chunk
	EOFAtEnd    bool     // after the script: io.EOF (peer closed) instead of blocking
	DataWithEOF bool     // deliver the last chunk together with io.EOF
	ReadErr     error    // error returned after the script instead of EOF (when non-nil)
	FailReadErr error    // error of the injected FailReadAt failure (default ErrInjected)
	Reads       int
	Consumed    int // inbound bytes handed out so far
	// fault injection (1-based call counters; 0 = never)
	FailWriteAt     int // k-th Write/Writev call fails
	FailWritesFrom  int // every Write/Writev call from this one on fails
	FailFlushAt     int
	FailReadAt      int
	WriteErr        error
	writes, flushes int
	// stalling: while Stalled, Write/Writev are disabled (the sender is stuck in the kernel)
	Stalled bool
	obj     *vsched.Obj
	x       *vsched.Exec
	// UnsafeWriteSide models a transport implementation whose write side is plain memory
	// (the shipped write-buffered wrapper: bufio.Writer is not safe for concurrent use; its Close
	// flushes too). In race-mode runs Write/Writev/Flush/Close then count as plain writes to one
	// location and Read as a plain write to another.
	UnsafeWriteSide bool
	// Wrapped: the mock plays the net.Conn underneath one of the library's own buffering wrappers
	// (transport.NewTransport). Bytes that reach the connection are on the wire: every successful
	// Write is followed by a synthetic flush record.
	Wrapped bool
	// write deadlines: the goroutine that armed the deadline currently in force ("" = none). A write
	// executed by ANOTHER goroutine while it is armed may be cut short by it at any moment; the mock
	// takes the worst case (half of the bytes go out, then the timeout). The library arms and clears a
	// deadline inside the write lock, so this never happens unless that discipline is broken.
	deadlineBy string
	// LaxAfterClose: a transport that does not police its own closed state (an in-memory pipe, a custom
	// transport): writes and flushes after Close are accepted and logged (with Closed set). The channel,
	// not the transport, has to refuse writes on a closed channel.
	LaxAfterClose  bool
	wstate, rstate byte
}

func NewTransport(name string) *Transport { return &Transport{Name: name} }

// payloadRead records (race mode) that the transport reads the bytes it is given.
func payloadRead(method string, bufs ...[]byte) {
	for _, b := range bufs {
		if len(b) > 0 {
			vsched.Plain(&b[0], "slice contents|Transport."+method+" (reads the payload)|mock", false)
		}
	}
}

func (m *Transport) plainW(method string) {
	if m.UnsafeWriteSide {
		vsched.Plain(&m.wstate, "transport(write-buffered wrapper state)|Transport."+method+"|mock", true)
	}
}

func (m *Transport) o() *vsched.Obj {
	if vsched.X == nil {
		return nil
	}
	if m.obj == nil || m.x != vsched.X {
		m.obj = vsched.ObjOf(m, "T:"+m.Name)
		m.x = vsched.X
	}
	return m.obj
}

func step() int {
	if vsched.X == nil {
		return 0
	}
	return vsched.X.Steps()
}

func now() int64 {
	if vsched.X == nil {
		return 0
	}
	return vsched.X.Now
}

func thr() string {
	if t := vsched.Cur(); t != nil {
		return t.Name
	}
	return ""
}

func (m *Transport) ev(k byte, data []byte, parts int, failed bool) {
	m.Log = append(m.Log, Ev{Kind: k, Data: data, Parts: parts, Step: step(), Now: now(), Thread: thr(), Failed: failed, Closed: m.IsClosed})
	vsched.Mutated()
}

// Mark appends a harness marker to the transport log (ordered with the calls).
func (m *Transport) Mark(note string) {
	vsched.Op("T.mark "+note, m.o(), rw, nil)
	m.Log = append(m.Log, Ev{Kind: 'M', Note: note, Step: step(), Now: now(), Thread: thr(), Closed: m.IsClosed})
}

// Feed appends inbound data (callable from an environment thread).
func (m *Transport) Feed(chunks ...[]byte) {
	vsched.Op("T.feed", m.o(), rw, nil)
	m.In = append(m.In, chunks...)
	vsched.Mutated()
}

// PeerClose makes subsequent reads (after the script) return io.EOF.
func (m *Transport) PeerClose() {
	vsched.Op("T.peerclose", m.o(), rw, nil)
	m.EOFAtEnd = true
	vsched.Mutated()
}

// Release ends a stall.
func (m *Transport) Release() {
	vsched.Op("T.release", m.o(), rw, nil)
	m.Stalled = false
	vsched.Mutated()
}

func (m *Transport) Read(p []byte) (int, error) {
	if len(p) == 0 {
		return 0, nil
	}
	prevDaemon := false
	if t := vsched.Cur(); t != nil {
		prevDaemon = t.Daemon
		t.Daemon = true // a thread parked in Read may stay there forever
	}
	vsched.Op("T.Read", m.o(), rw, func() bool {
		return m.IsClosed || len(m.In) > 0 || m.EOFAtEnd || m.ReadErr != nil || (m.FailReadAt > 0 && m.Reads+1 == m.FailReadAt)
	})
	if t := vsched.Cur(); t != nil {
		t.Daemon = prevDaemon
	}
	m.Reads++
	// A failing read that repeats the previous failing read changes nothing: it is logged once
	// and not counted as a mutation (keeps spinning read loops detectable by the scheduler).
	failed := func() {
		if n := len(m.Log); n > 0 && m.Log[n-1].Kind == 'R' && m.Log[n-1].Failed && m.Log[n-1].Closed == m.IsClosed {
			return
		}
		m.Log = append(m.Log, Ev{Kind: 'R', Step: step(), Now: now(), Thread: thr(), Failed: true, Closed: m.IsClosed})
		vsched.Mutated()
	}
	if m.IsClosed {
		failed()
		return 0, ErrClosed("read")
	}
	if m.FailReadAt > 0 && m.Reads == m.FailReadAt {
		m.ev('R', nil, 0, true)
		if m.FailReadErr != nil {
			return 0, m.FailReadErr
		}
		return 0, ErrInjected
	}
	if len(m.In) > 0 {
		c := m.In[0]
		n := copy(p, c)
		if n < len(c) {
			m.In[0] = c[n:]
		} else {
			m.In = m.In[1:]
		}
		m.Consumed += n
		m.ev('R', append([]byte(nil), p[:n]...), 0, false)
		if len(m.In) == 0 && m.EOFAtEnd && m.DataWithEOF {
			return n, io.EOF
		}
		return n, nil
	}
	failed()
	if m.ReadErr != nil {
		return 0, m.ReadErr
	}
	return 0, io.EOF
}

func (m *Transport) writeFault() error {
	m.writes++
	if m.IsClosed && !m.LaxAfterClose {
		return ErrClosed("write")
	}
	if (m.FailWriteAt > 0 && m.writes == m.FailWriteAt) || (m.FailWritesFrom > 0 && m.writes >= m.FailWritesFrom) {
		if m.WriteErr != nil {
			return m.WriteErr
		}
		return ErrInjected
	}
	return nil
}

// ErrForeignDeadline is returned by a write that ran under a deadline armed by another goroutine.
type foreignDeadline struct{}

func (foreignDeadline) Error() string {
	return "mock: i/o timeout (write deadline armed by another goroutine expired)"
}
func (foreignDeadline) Timeout() bool   { return true }
func (foreignDeadline) Temporary() bool { return true }

func (m *Transport) cutShort() bool {
	return m.deadlineBy != "" && m.deadlineBy != thr() && !m.IsClosed
}

func (m *Transport) Write(p []byte) (int, error) {
	vsched.Op("T.Write", m.o(), rw, func() bool { return !m.Stalled || m.IsClosed })
	m.plainW("Write")
	payloadRead("Write", p)
	if m.cutShort() && len(p) > 1 {
		m.writes++
		h := len(p) / 2
		m.ev('W', append([]byte(nil), p[:h]...), 1, false)
		m.Unflushed++
		return h, foreignDeadline{}
	}
	if err := m.writeFault(); err != nil {
		m.ev('W', append([]byte(nil), p...), 1, true)
		return 0, err
	}
	m.ev('W', append([]byte(nil), p...), 1, false)
	if m.Wrapped {
		m.ev('F', nil, 0, false)
	} else {
		m.Unflushed++
	}
	return len(p), nil
}

func (m *Transport) Writev(b transport.Buffers) (int64, error) {
	vsched.Op("T.Writev", m.o(), rw, func() bool { return !m.Stalled || m.IsClosed })
	m.plainW("Writev")
	payloadRead("Writev", b...)
	var data []byte
	for _, x := range b {
		data = append(data, x...)
	}
	if m.cutShort() && len(data) > 1 {
		m.writes++
		h := len(data) / 2
		m.ev('V', data[:h], len(b), false)
		m.Unflushed++
		return int64(h), foreignDeadline{}
	}
	if err := m.writeFault(); err != nil {
		m.ev('V', data, len(b), true)
		return 0, err
	}
	m.ev('V', data, len(b), false)
	m.Unflushed++
	return int64(len(data)), nil
}

func (m *Transport) Flush() error {
	vsched.Op("T.Flush", m.o(), rw, nil)
	m.plainW("Flush")
	m.flushes++
	if m.IsClosed && !m.LaxAfterClose {
		m.ev('F', nil, 0, true)
		return ErrClosed("flush")
	}
	if m.FailFlushAt > 0 && m.flushes == m.FailFlushAt {
		m.ev('F', nil, 0, true)
		if m.WriteErr != nil {
			return m.WriteErr
		}
		return ErrInjected
	}
	m.ev('F', nil, 0, false)
	m.Unflushed = 0
	return nil
}

func (m *Transport) Close() error {
	vsched.Op("T.Close", m.o(), rw, nil)
	m.plainW("Close")
	m.ev('C', nil, 0, m.IsClosed)
	m.Closes++
	if m.IsClosed {
		return ErrClosed("close")
	}
	m.IsClosed = true
	return nil
}

type addr string

func (a addr) Network() string { return "mock" }
func (a addr) String() string  { return string(a) }

func (m *Transport) LocalAddr() net.Addr               { return addr("local:" + m.Name) }
func (m *Transport) RemoteAddr() net.Addr              { return addr("remote:" + m.Name) }
func (m *Transport) SetDeadline(t time.Time) error     { return nil }
func (m *Transport) SetReadDeadline(t time.Time) error { return nil }
func (m *Transport) SetWriteDeadline(t time.Time) error {
	vsched.Op("T.SetWriteDeadline", m.o(), rw, nil)
	note := "set"
	m.deadlineBy = thr()
	if t.IsZero() {
		note = "clear"
		m.deadlineBy = ""
	}
	m.Log = append(m.Log, Ev{Kind: 'D', Note: note, Step: step(), Now: now(), Thread: thr(), Closed: m.IsClosed})
	return nil
}
func (m *Transport) RawTransport() interface{} { return m }

// Wire returns the bytes successfully written (in call order), optionally only
// those written before the first Close.
func (m *Transport) Wire() []byte {
	var w []byte
	for _, e := range m.Log {
		if (e.Kind == 'W' || e.Kind == 'V') && !e.Failed {
			w = append(w, e.Data...)
		}
	}
	return w
}

// LogString renders the log compactly (payload bytes summarised by Summ).
func (m *Transport) LogString() string {
	var b strings.Builder
	for i, e := range m.Log {
		if i > 0 {
			b.WriteByte(' ')
		}
		switch e.Kind {
		case 'M':
			fmt.Fprintf(&b, "<%s>", e.Note)
		case 'D':
			fmt.Fprintf(&b, "D:%s", e.Note)
		case 'R':
			if e.Failed {
				b.WriteString("R!")
			} else {
				fmt.Fprintf(&b, "R:%s", Summ(e.Data))
			}
		case 'W', 'V':
			fmt.Fprintf(&b, "%c:%s", e.Kind, Summ(e.Data))
			if e.Failed {
				b.WriteByte('!')
			}
		default:
			b.WriteByte(e.Kind)
			if e.Failed {
				b.WriteByte('!')
			}
		}
	}
	return b.String()
}

// Payload builds the distinguishable payload of call id (1..250): first byte is
// the id, the remaining bytes a position-dependent pattern.
func Payload(id, size int) []byte {
	b := make([]byte, size)
	for i := range b {
		b[i] = PayloadByte(id, i)
	}
	return b
}

func PayloadByte(id, i int) byte {
	if i == 0 {
		return byte(id)
	}
	return byte(id*31 + i*7 + (i >> 8))
}

// Summ summarises payload bytes as id(len) runs where they parse as Payloads.
func Summ(d []byte) string {
	if len(d) == 0 {
		return "∅"
	}
	if len(d) <= 12 {
		pr := true
		for _, c := range d {
			if c < 32 || c > 126 {
				pr = false
			}
		}
		if pr {
			return string(d)
		}
	}
	return fmt.Sprintf("#%d(%d)", d[0], len(d))
}
