//go:build verif

package mock

import (
	"fmt"
	"net"

	"github.com/go-netty/go-netty/transport"
	"github.com/go-netty/go-netty/zz_verif/vsched"
)

// Factory is a scheduler-visible transport.Factory: Listen creates counted
// acceptors, Connect returns mock transports.
type Factory struct {
	Acceptors []*Acceptor
	Conns     []*Transport // transports handed out by Connect
	obj       *vsched.Obj
	x         *vsched.Exec
}

func (f *Factory) o() *vsched.Obj {
	if vsched.X == nil {
		return nil
	}
	if f.obj == nil || f.x != vsched.X {
		f.obj, f.x = vsched.ObjOf(f, "Factory"), vsched.X
	}
	return f.obj
}

func (f *Factory) Schemes() transport.Schemes { return transport.Schemes{"mock"} }

func (f *Factory) Connect(options *transport.Options) (transport.Transport, error) {
	vsched.Op("Factory.Connect", f.o(), rw, nil)
	t := NewTransport(fmt.Sprintf("client%d", len(f.Conns)+1))
	f.Conns = append(f.Conns, t)
	vsched.Mutated()
	return t, nil
}

func (f *Factory) Listen(options *transport.Options) (transport.Acceptor, error) {
	vsched.Op("Factory.Listen", f.o(), rw, nil)
	a := &Acceptor{Name: fmt.Sprintf("acceptor%d(%s)", len(f.Acceptors)+1, options.Address.Host), f: f}
	f.Acceptors = append(f.Acceptors, a)
	vsched.Mutated()
	return a, nil
}

// AcceptorCount is a scheduler-visible read (used by environment threads to wait).
func (f *Factory) WaitAcceptor(i int) *Acceptor {
	vsched.Op("env waits for acceptor", f.o(), vsched.RD, func() bool { return len(f.Acceptors) > i })
	return f.Acceptors[i]
}

// Acceptor hands out scripted inbound connections.
type Acceptor struct {
	Name        string
	Closed      bool
	Closes      int
	Pending     []*Transport
	Accepted    []*Transport
	Outstanding int // Accept calls currently blocked
	f           *Factory
}

func (a *Acceptor) Accept() (transport.Transport, error) {
	a.Outstanding++
	prev := false
	if t := vsched.Cur(); t != nil {
		prev = t.Daemon
		t.Daemon = true // an accept loop may legitimately wait forever - the oracle decides
	}
	vsched.Op("Acceptor.Accept "+a.Name, a.f.o(), rw, func() bool { return a.Closed || len(a.Pending) > 0 })
	if t := vsched.Cur(); t != nil {
		t.Daemon = prev
	}
	a.Outstanding--
	vsched.Mutated()
	if a.Closed {
		return nil, &net.OpError{Op: "accept", Net: "mock", Err: net.ErrClosed}
	}
	t := a.Pending[0]
	a.Pending = a.Pending[1:]
	a.Accepted = append(a.Accepted, t)
	return t, nil
}

func (a *Acceptor) Close() error {
	vsched.Op("Acceptor.Close "+a.Name, a.f.o(), rw, nil)
	a.Closes++
	vsched.Mutated()
	if a.Closed {
		return &net.OpError{Op: "close", Net: "mock", Err: net.ErrClosed}
	}
	a.Closed = true
	return nil
}

// Inject queues an inbound connection (environment operation).
func (a *Acceptor) Inject(name string) *Transport {
	vsched.Op("env connects to "+a.Name, a.f.o(), rw, nil)
	t := NewTransport(name)
	a.Pending = append(a.Pending, t)
	vsched.Mutated()
	return t
}
