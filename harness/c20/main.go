//go:build verif

// C20: idle handlers fire only after a full idle period and never after inactive.
package main

import (
	"context"
	"encoding/json"
	"errors"
	"fmt"
	"io"
	"strings"
	"time"

	netty "github.com/go-netty/go-netty"
	"github.com/go-netty/go-netty/zz_verif/explore"
	"github.com/go-netty/go-netty/zz_verif/hlib"
	"github.com/go-netty/go-netty/zz_verif/mock"
	"github.com/go-netty/go-netty/zz_verif/vsched"
)

const T = int64(time.Second)

type icase struct {
	OnIdle        string  `json:"on_idle,omitempty"`         // what the event handler does on an idle event: "" | "heartbeat" | "close"
	Kind          string  `json:"kind"`                      // "read" | "write"
	Gaps          []int64 `json:"gaps"`                      // virtual gaps before each message (ns)
	CloseAt       int64   `json:"close_at"`                  // -1: never; else Close is issued after this much virtual time
	Panic         bool    `json:"panic"`                     // the event handler panics
	CloseInActive bool    `json:"close_in_active,omitempty"` // a handler behind the idle handler closes the channel inside HandleActive
	// BadWrites: the outbound messages are of a type the head of the pipeline refuses (the write passes
	// the idle handler and then fails with an exception, which the application consumes)
	BadWrites bool `json:"bad_writes,omitempty"`
	// InactivePanic: a handler behind the idle handler panics in HandleInactive
	InactivePanic bool `json:"inactive_panic,omitempty"`
}

func (c icase) name() string {
	var g []string
	for _, x := range c.Gaps {
		g = append(g, fmt.Sprintf("%.1fT", float64(x)/float64(T)))
	}
	s := fmt.Sprintf("%s-idle/messages after [%s]", c.Kind, strings.Join(g, " "))
	if c.CloseAt >= 0 {
		s += fmt.Sprintf("/close@%.1fT", float64(c.CloseAt)/float64(T))
	}
	if c.Panic {
		s += "/event-handler-panics"
	}
	if c.CloseInActive {
		s += "/closed-inside-HandleActive"
	}
	if c.OnIdle != "" {
		s += "/on-idle=" + c.OnIdle
	}
	if c.BadWrites {
		s += "/writes-refused-below-the-handler"
	}
	if c.InactivePanic {
		s += "/downstream-inactive-handler-panics"
	}
	return s
}

// stamp of an event passing the idle handler: t is a virtual time not later than the time the
// handler itself reads (used by "not too early"), hi a time not earlier than it (completion; used
// by "keeps firing"), step the step at which the handler's processing completed.
type stamp struct {
	t    int64
	step int
	hi   int64
}

type idleEv struct {
	stamp
	cbStart int // step at which the delivering goroutine started
	thread  string
}

type obs struct {
	ic         icase
	env        *hlib.Env
	passed     []stamp // messages: passage through the idle handler completed
	active     *stamp
	inactive   *stamp
	events     []idleEv
	excs       []error
	endNow     int64
	lastReadAt int64
	heartbeats int
}

func now() stamp { return stamp{vsched.X.Now, vsched.X.Steps(), vsched.X.Now} }

// pre sits in front of the idle handler (in event direction) and records when an
// event has completely passed it.
type pre struct{ o *obs }

// Stamps combine the virtual time at which the event ENTERED the idle handler (never later than
// the time the handler itself reads) with the step at which its processing COMPLETED.
func (p *pre) HandleActive(ctx netty.ActiveContext) {
	entry := now()
	ctx.HandleActive()
	p.o.active = &stamp{entry.t, now().step, now().t}
}
func (p *pre) HandleRead(ctx netty.InboundContext, m netty.Message) {
	p.o.lastReadAt = -1
	ctx.HandleRead(m)
	if p.o.ic.Kind == "read" && p.o.lastReadAt >= 0 {
		// t: when the sink had the data in hand (before the idle handler took its own timestamp)
		p.o.passed = append(p.o.passed, stamp{p.o.lastReadAt, now().step, now().t})
	}
}
func (p *pre) HandleInactive(ctx netty.InactiveContext, ex netty.Exception) {
	// (recorded also when a handler further down panics: the event has passed the idle handler by then)
	defer func() {
		s := now()
		p.o.inactive = &s
	}()
	ctx.HandleInactive(ex)
}

// preW is the tail-side recorder for outbound writes.
type preW struct{ o *obs }

func (p *preW) HandleWrite(ctx netty.OutboundContext, m netty.Message) {
	entry := now()
	// (recorded also when the write fails further down: it has passed the idle handler by then)
	defer func() { p.o.passed = append(p.o.passed, stamp{entry.t, now().step, now().t}) }()
	ctx.HandleWrite(m)
}

var errEventBoom = errors.New("event handler failure")

// sink: reads the transport, receives idle events.
type sink struct{ o *obs }

func (s *sink) HandleActive(ctx netty.ActiveContext) {
	if s.o.ic.CloseInActive {
		ctx.Close(errClose)
	}
	ctx.HandleActive()
}

func (s *sink) HandleInactive(ctx netty.InactiveContext, ex netty.Exception) {
	if s.o.ic.InactivePanic {
		panic(errors.New("inactive handler failure"))
	}
	ctx.HandleInactive(ex)
}

func (s *sink) HandleRead(ctx netty.InboundContext, m netty.Message) {
	var b [16]byte
	if _, err := m.(io.Reader).Read(b[:]); err != nil {
		panic(err)
	}
	s.o.lastReadAt = vsched.X.Now
}
func (s *sink) HandleEvent(ctx netty.EventContext, ev netty.Event) {
	switch ev.(type) {
	case netty.ReadIdleEvent, netty.WriteIdleEvent:
		e := idleEv{stamp: now()}
		if t := vsched.Cur(); t != nil {
			e.cbStart, e.thread = t.StartStep, t.Name
		}
		s.o.events = append(s.o.events, e)
		if s.o.ic.Panic {
			panic(errEventBoom)
		}
		switch s.o.ic.OnIdle {
		case "heartbeat":
			// the usual keep-alive: answer an idle event with a message (re-enters the write-idle handler)
			s.o.heartbeats++
			ctx.Channel().Write([]byte("ping"))
		case "close":
			// the usual idle policy: drop the connection (re-enters the idle handler through inactive)
			ctx.Close(errClose)
		}
	}
}
func (s *sink) HandleException(ctx netty.ExceptionContext, ex netty.Exception) {
	if errors.Is(ex, errEventBoom) {
		s.o.excs = append(s.o.excs, ex)
		return // consumed
	}
	if s.o.ic.BadWrites && s.o.inactive == nil && !errors.Is(ex, io.EOF) && !strings.Contains(ex.Error(), "closed") {
		return // a refused outbound message: logged and consumed, the channel stays open
	}
	ctx.HandleException(ex) // read failures after close etc.
}

var errClose = errors.New("closed by the test")

func buildScenario(ic icase, bound int) *explore.Scenario {
	return &explore.Scenario{
		Name:  ic.name(),
		Bound: bound,
		Cache: true,
		Cfg:   vsched.Config{MaxSteps: 6000, Horizon: 5 * T, EarlyTicks: true},
		Init:  func() any { return &obs{ic: ic} },
		Body: func(v any) {
			o := v.(*obs)
			e := &hlib.Env{T: mock.NewTransport("t")}
			o.env = e
			e.PL = netty.NewPipeline()
			if ic.Kind == "read" {
				e.PL.AddLast(&pre{o}, netty.ReadIdleHandler(time.Duration(T)), &sink{o})
			} else {
				e.PL.AddLast(&pre{o}, netty.WriteIdleHandler(time.Duration(T)), &preW{o}, &sink{o})
			}
			e.Ch = netty.NewChannel()(1, context.Background(), e.PL, e.T, netty.AsyncExecutor())
			e.PL.ServeChannel(e.Ch)
			var ths []*vsched.Thread
			ths = append(ths, vsched.Go("peer", func() {
				for i, g := range ic.Gaps {
					vsched.Sleep(g)
					if ic.Kind == "read" {
						e.T.Feed([]byte{byte('a' + i)})
					} else if ic.BadWrites {
						e.Ch.Write(struct{ n int }{i}) // not a message type the head accepts
					} else {
						e.Ch.Write([]byte{byte('a' + i)})
					}
				}
			}))
			if ic.CloseAt >= 0 {
				ths = append(ths, vsched.Go("closer", func() {
					vsched.Sleep(ic.CloseAt)
					e.Ch.Close(errClose)
				}))
			}
			if ic.CloseAt < 0 {
				// the environment keeps watching a channel that stays open: virtual time reaches 4.5T even
				// if the handler under test lets its timer die (silence must keep producing events)
				ths = append(ths, vsched.Go("observer", func() { vsched.Sleep(9 * T / 2) }))
			}
			for _, t := range ths {
				vsched.Join(t)
			}
		},
		Outcome: func(x *vsched.Exec, v any) string {
			o := v.(*obs)
			var b strings.Builder
			for _, m := range o.passed {
				fmt.Fprintf(&b, "m@%d ", m.t/1e6)
			}
			for _, e := range o.events {
				fmt.Fprintf(&b, "idle@%d ", e.t/1e6)
			}
			if o.inactive != nil {
				fmt.Fprintf(&b, "inactive@%d ", o.inactive.t/1e6)
			}
			return b.String() + fmt.Sprint(len(o.excs), x.PendingTimers())
		},
		Check: func(x *vsched.Exec, v any) []explore.Finding {
			o := v.(*obs)
			var fs []explore.Finding
			add := func(k, m string) { fs = append(fs, explore.Finding{Key: k + "/" + ic.Kind, Msg: m}) }
			var b strings.Builder
			if o.active != nil {
				fmt.Fprintf(&b, "active passed @%dms(step %d); ", o.active.t/1e6, o.active.step)
			}
			for _, m := range o.passed {
				fmt.Fprintf(&b, "message passed @%dms(step %d); ", m.t/1e6, m.step)
			}
			for _, e := range o.events {
				fmt.Fprintf(&b, "idle event @%dms(step %d, callback %s started at step %d); ", e.t/1e6, e.step, e.thread, e.cbStart)
			}
			if o.inactive != nil {
				fmt.Fprintf(&b, "inactive passed @%dms(step %d); ", o.inactive.t/1e6, o.inactive.step)
			}
			ctxs := " timeline: " + b.String() + fmt.Sprintf("armed timers at the end: %d, end of run @%dms, early clock ticks: %d", x.PendingTimers(), x.Now/1e6, x.Ticks)
			if ab := x.Abnormal(); ab != "" {
				return nil // scheduler verdicts are reported by the engine
			}
			if o.active == nil {
				add("no-active", "active never passed the idle handler;"+ctxs)
				return fs
			}
			afterInactive := 0
			for _, e := range o.events {
				// (1) a full idle period since activation and since every message that had passed before the callback started
				if e.t-o.active.t < T {
					add("idle-event-too-early(after activation)", fmt.Sprintf("idle event at %dms, only %dms after activation;%s", e.t/1e6, (e.t-o.active.t)/1e6, ctxs))
				}
				for _, m := range o.passed {
					if m.step < e.cbStart && e.t-m.t < T {
						add("idle-event-too-early", fmt.Sprintf("idle event at %dms only %dms after a message had passed the handler (before the timer callback even started);%s", e.t/1e6, (e.t-m.t)/1e6, ctxs))
						break
					}
				}
				// (3) after inactive: at most the one callback already in flight
				if o.inactive != nil && e.step > o.inactive.step {
					afterInactive++
					if e.cbStart > o.inactive.step {
						add("idle-event-after-inactive", fmt.Sprintf("an idle event was delivered by a timer callback that started after inactive had passed the handler;%s", ctxs))
					}
				}
			}
			if afterInactive > 1 {
				add("idle-events-after-inactive", fmt.Sprintf("%d idle events after inactive (at most the one callback in flight may deliver);%s", afterInactive, ctxs))
			}
			if o.inactive != nil && x.PendingTimers() > 0 {
				add("timer-not-released", "inactive passed the handler but its timer is still armed at the end;"+ctxs)
			}
			// (2) it keeps firing while idleness persists (judged on executions without early clock ticks,
			// where virtual time only advances when every goroutine is waiting)
			if x.Ticks == 0 {
				last := o.active.hi
				for _, m := range o.passed {
					if m.hi > last {
						last = m.hi
					}
				}
				end := x.Now
				if o.inactive != nil {
					end = o.inactive.t
				}
				want := int((end - last) / T)
				if o.inactive != nil && (end-last)%T == 0 && want > 0 {
					want-- // an expiry that coincides with the close may go either way
				}
				got := 0
				for _, e := range o.events {
					if e.t > last || (e.t == last && false) {
						got++
					}
				}
				if got < want {
					add("idle-events-missing", fmt.Sprintf("%dms of silence after the last message (until %dms) must produce at least %d idle events, got %d;%s", (end-last)/1e6, end/1e6, want, got, ctxs))
				}
			}
			// (4) a panicking event handler: one exception per event, nothing dies
			if ic.Panic && len(o.excs) != len(o.events) {
				add("event-panic-not-routed", fmt.Sprintf("%d idle events panicked but %d exceptions were delivered;%s", len(o.events), len(o.excs), ctxs))
			}
			return fs
		},
	}
}

func cases(thorough bool) []icase {
	gaps := []int64{0, T / 2, T, 3 * T / 2}
	gaps2 := []int64{0, T / 16, T / 2, T, 3 * T / 2} // (T/16: a burst - the next message follows almost immediately)
	var seqs [][]int64
	seqs = append(seqs, nil)
	for _, a := range gaps {
		seqs = append(seqs, []int64{a})
		for _, b := range gaps2 {
			seqs = append(seqs, []int64{a, b})
			if thorough {
				for _, c := range gaps {
					seqs = append(seqs, []int64{a, b, c})
				}
			}
		}
	}
	var out []icase
	for _, kind := range []string{"read", "write"} {
		for _, s := range seqs {
			for _, cl := range []int64{-1, T / 2, T, 3 * T / 2, 5 * T / 2} {
				out = append(out, icase{Kind: kind, Gaps: s, CloseAt: cl})
			}
			out = append(out, icase{Kind: kind, Gaps: s, CloseAt: -1, Panic: true})
			if len(s) <= 1 {
				out = append(out, icase{Kind: kind, Gaps: s, CloseAt: -1, CloseInActive: true})
				out = append(out, icase{Kind: kind, Gaps: s, CloseAt: -1, OnIdle: "heartbeat"}, icase{Kind: kind, Gaps: s, CloseAt: 5 * T / 2, OnIdle: "heartbeat"}, icase{Kind: kind, Gaps: s, CloseAt: -1, OnIdle: "close"})
			}
			if thorough {
				out = append(out, icase{Kind: kind, Gaps: s, CloseAt: 3 * T / 2, Panic: true})
			}
			if len(s) <= 1 {
				out = append(out, icase{Kind: kind, Gaps: s, CloseAt: T / 2, InactivePanic: true}, icase{Kind: kind, Gaps: s, CloseAt: 3 * T / 2, InactivePanic: true})
			}
			if kind == "write" && len(s) >= 1 {
				out = append(out, icase{Kind: kind, Gaps: s, CloseAt: -1, BadWrites: true})
			}
		}
	}
	return out
}

func main() {
	explore.Main(explore.Spec{
		Property: "C20",
		Rule:     "read-idle and write-idle handlers (idle time T = 1s) on virtual time: a peer goroutine issues 0-2 (thorough 3) messages separated by gaps from {0, T/16 (burst), T/2, T, 3T/2}; an observer keeps an open channel under watch until 4.5T; Close at {never, T/2, T, 3T/2, 5T/2} or from inside a downstream HandleActive, also with a downstream inactive handler that panics; event handlers that panic, answer with a heartbeat write, or close the channel; outbound messages that pass the write-idle handler and are then refused by the head (exception consumed); timer callbacks are controlled goroutines; all interleavings up to 2 (thorough 3) deviations (preemptions + early clock ticks), horizon 5T. Oracle: an idle event delivered by a callback that started at step s and time t needs t - t_m >= T for every message whose passage through the idle handler had completed before s, and t - t_active >= T; on tick-free executions silence of k*T produces >= k events; after inactive has passed the handler at most the one callback already in flight delivers an event, no callback starts afterwards, and no timer stays armed; one exception per panicking event and no goroutine dies. distinct = distinct timelines",
		Assume:   []string{"'passed the handler' is read as 'the handler's processing of the message completed' (messages still in flight when the callback started are disregarded - the weakest reading)", "virtual time; a callback may be delayed arbitrarily by scheduling"},
		Build: func(tier string) []*explore.Scenario {
			th := tier == "thorough"
			b := 2
			if th {
				b = 3
			}
			return []*explore.Scenario{{
				Name:   "idle timelines",
				Shards: 16,
				Bound:  b,
				Enum: func(c *explore.EnumCtx) {
					for _, ic := range cases(th) {
						if !c.Mine() || c.Expired() {
							continue
						}
						bb := b
						if th && len(ic.Gaps) >= 2 {
							bb = b - 1 // thorough: three deviations for the short timelines, two for the longer ones
						}
						c.Explore(buildScenario(ic, bb), ic)
					}
				},
				Replay: func(c *explore.EnumCtx, desc json.RawMessage) {
					var ic icase
					json.Unmarshal(desc, &ic)
					c.ReplaySub(buildScenario(ic, b))
				},
			}}
		},
	})
}
